module verif

go 1.23

require github.com/wrgl/wrgl v0.0.0

replace github.com/wrgl/wrgl => /repo
