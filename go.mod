module verif

go 1.23

require (
	github.com/mattn/go-sqlite3 v1.14.14
	github.com/wrgl/wrgl v0.0.0
)

require (
	github.com/google/uuid v1.3.0 // indirect
	github.com/klauspost/compress v1.16.7 // indirect
	github.com/pckhoi/meow v0.0.0-20211009023351-e1fff1d3c870 // indirect
)

replace github.com/wrgl/wrgl => /repo
