// Package refsrv is a reference HTTP server for the wrgl sync protocol, assembled only from
// the repository's own components (ClosedSetsFinder, ObjectSender, ObjectReceiver, ref
// helpers) plus HTTP glue. It adds no policy of its own: it neither repairs nor rejects
// anything the components accept. It exists because the repository contains only the client
// half of the protocol.
package refsrv

import (
	"compress/gzip"
	"encoding/json"
	"errors"
	"fmt"
	"io"
	"net/http"
	"net/http/httptest"
	"strings"
	"sync"

	"github.com/go-logr/logr"
	"github.com/wrgl/wrgl/pkg/api/payload"
	apiutils "github.com/wrgl/wrgl/pkg/api/utils"
	"github.com/wrgl/wrgl/pkg/encoding/packfile"
	"github.com/wrgl/wrgl/pkg/objects"
	"github.com/wrgl/wrgl/pkg/ref"
)

const (
	ctJSON     = "application/json"
	ctPackfile = "application/x-wrgl-packfile"
)

// Request is one entry of the request log.
type Request struct {
	Method, Path, Kind string
	Objects            int // objects in a packfile sent or received
	Status             int
}

type Server struct {
	DB               objects.Store
	RS               ref.Store
	TableNegotiation bool   // upload-pack: offer tables to the client before sending
	MaxPackfileSize  uint64 // 0 = the sender's default

	mu   sync.Mutex
	Log  []Request
	up   map[string]*upSession
	rp   map[string]*rpSession
	next int
}

func New(db objects.Store, rs ref.Store) *Server {
	return &Server{DB: db, RS: rs, up: map[string]*upSession{}, rp: map[string]*rpSession{}}
}

func (s *Server) logReq(r *http.Request, kind string, objs, status int) {
	s.Log = append(s.Log, Request{r.Method, r.URL.Path, kind, objs, status})
}

// ObjectsTransferred sums the objects of all packfiles in the log.
func (s *Server) ObjectsTransferred() int {
	s.mu.Lock()
	defer s.mu.Unlock()
	n := 0
	for _, r := range s.Log {
		n += r.Objects
	}
	return n
}

func (s *Server) ResetLog() {
	s.mu.Lock()
	s.Log = nil
	s.mu.Unlock()
}

func (s *Server) ServeHTTP(w http.ResponseWriter, r *http.Request) {
	s.mu.Lock()
	defer s.mu.Unlock()
	switch {
	case r.Method == http.MethodGet && r.URL.Path == "/refs/":
		s.handleRefs(w, r)
	case r.Method == http.MethodPost && r.URL.Path == "/upload-pack/":
		s.handleUploadPack(w, r)
	case r.Method == http.MethodPost && r.URL.Path == "/receive-pack/":
		s.handleReceivePack(w, r)
	default:
		s.logReq(r, "unknown", 0, 404)
		http.Error(w, "not found", 404)
	}
}

func writeJSON(w http.ResponseWriter, v any) {
	w.Header().Set("Content-Type", ctJSON)
	json.NewEncoder(w).Encode(v)
}

func (s *Server) handleRefs(w http.ResponseWriter, r *http.Request) {
	q := r.URL.Query()
	m, err := ref.ListLocalRefs(s.RS, q["prefix"], q["notprefix"])
	if err != nil {
		http.Error(w, err.Error(), 500)
		return
	}
	resp := &payload.GetRefsResponse{Refs: map[string]*payload.Hex{}}
	for k, v := range m {
		resp.Refs[k] = payload.BytesToHex(v)
	}
	s.logReq(r, "refs", 0, 200)
	writeJSON(w, resp)
}

// ---- upload-pack (fetch) ----

type upSession struct {
	finder     *apiutils.ClosedSetsFinder
	sender     *apiutils.ObjectSender
	phase      int // 0 negotiate, 1 tables, 2 send
	tables     map[string]struct{}
	candidates [][]byte
}

func (s *Server) sessionID(r *http.Request, name string) string {
	if c, err := r.Cookie(name); err == nil {
		return c.Value
	}
	return ""
}

func (s *Server) newID() string {
	s.next++
	return fmt.Sprintf("s%d", s.next)
}

func (s *Server) handleUploadPack(w http.ResponseWriter, r *http.Request) {
	const cookie = "upload-pack-session-id"
	var req payload.UploadPackRequest
	if err := json.NewDecoder(r.Body).Decode(&req); err != nil {
		s.logReq(r, "bad-json", 0, 400)
		http.Error(w, err.Error(), 400)
		return
	}
	sid := s.sessionID(r, cookie)
	ses := s.up[sid]
	if ses == nil {
		if len(req.Wants) == 0 {
			s.logReq(r, "no-wants", 0, 400)
			http.Error(w, "empty wants list", 400)
			return
		}
		sid = s.newID()
		ses = &upSession{finder: apiutils.NewClosedSetsFinder(s.DB, s.RS, req.Depth)}
		s.up[sid] = ses
		http.SetCookie(w, &http.Cookie{Name: cookie, Value: sid, Path: "/"})
	}
	fail := func(code int, err error) {
		delete(s.up, sid)
		s.logReq(r, "error", 0, code)
		http.Error(w, err.Error(), code)
	}
	if ses.phase == 0 {
		acks, err := ses.finder.Process(payload.HexSliceToBytesSlice(req.Wants), payload.HexSliceToBytesSlice(req.Haves), req.Done)
		if err != nil {
			var uw *apiutils.UnrecognizedWantsError
			if errors.As(err, &uw) {
				fail(400, err)
			} else {
				fail(500, err)
			}
			return
		}
		if len(ses.finder.Wants) > 0 && !req.Done {
			s.logReq(r, "negotiate", 0, 200)
			writeJSON(w, &payload.UploadPackResponse{ACKs: payload.BytesSliceToHexSlice(acks)})
			return
		}
		tables, err := ses.finder.TablesToSend()
		if err != nil {
			fail(500, err)
			return
		}
		ses.tables = tables
		if s.TableNegotiation {
			for t := range tables {
				ses.candidates = append(ses.candidates, []byte(t))
			}
		}
		ses.phase = 1
		req.TableACKs = nil
	}
	if ses.phase == 1 {
		for _, a := range req.TableACKs {
			delete(ses.tables, string((*a)[:]))
		}
		if len(ses.candidates) > 0 {
			n := len(ses.candidates)
			if n > 256 {
				n = 256
			}
			batch := ses.candidates[:n]
			ses.candidates = ses.candidates[n:]
			s.logReq(r, "table-haves", 0, 200)
			writeJSON(w, &payload.UploadPackResponse{TableHaves: payload.BytesSliceToHexSlice(batch)})
			return
		}
		commits, err := ses.finder.CommitsToSend()
		if err != nil {
			fail(500, err)
			return
		}
		ses.sender, err = apiutils.NewObjectSender(s.DB, commits, ses.tables, ses.finder.CommonCommmits(), s.MaxPackfileSize)
		if err != nil {
			fail(500, err)
			return
		}
		ses.phase = 2
	}
	w.Header().Set("Content-Type", ctPackfile)
	done, info, err := ses.sender.WriteObjects(w, nil)
	if err != nil {
		delete(s.up, sid)
		s.logReq(r, "error", 0, 500)
		return
	}
	n := 0
	if info != nil {
		n = len(info.Objects)
	}
	s.logReq(r, "packfile", n, 200)
	if done {
		delete(s.up, sid)
	}
}

// ---- receive-pack (push) ----

type rpSession struct {
	updates  map[string]*payload.Update
	receiver *apiutils.ObjectReceiver
}

func (s *Server) applyUpdates(updates map[string]*payload.Update) map[string]*payload.Update {
	report := map[string]*payload.Update{}
	for name, u := range updates {
		rep := &payload.Update{Sum: u.Sum, OldSum: u.OldSum, ErrMsg: u.ErrMsg}
		report[name] = rep
		if rep.ErrMsg != "" {
			continue
		}
		var err error
		if u.Sum == nil {
			err = ref.DeleteRef(s.RS, name)
		} else {
			sum := (*u.Sum)[:]
			if !objects.CommitExist(s.DB, sum) {
				rep.ErrMsg = "remote did not receive commit"
				continue
			}
			err = ref.SaveRef(s.RS, name, sum, "srv", "srv@srv", "receive-pack", "update ref", nil)
		}
		if err != nil {
			rep.ErrMsg = err.Error()
		}
	}
	return report
}

func (s *Server) handleReceivePack(w http.ResponseWriter, r *http.Request) {
	const cookie = "receive-pack-session-id"
	sid := s.sessionID(r, cookie)
	ses := s.rp[sid]
	if strings.Contains(r.Header.Get("Content-Type"), ctPackfile) {
		if ses == nil || ses.receiver == nil {
			s.logReq(r, "packfile-without-session", 0, 400)
			http.Error(w, "no session", 400)
			return
		}
		var body io.ReadCloser = r.Body
		if r.Header.Get("Content-Encoding") == "gzip" {
			gz, err := gzip.NewReader(r.Body)
			if err != nil {
				s.logReq(r, "bad-gzip", 0, 400)
				http.Error(w, err.Error(), 400)
				return
			}
			body = gz
		}
		pr, err := packfile.NewPackfileReader(body)
		if err != nil {
			delete(s.rp, sid)
			s.logReq(r, "bad-packfile", 0, 400)
			http.Error(w, err.Error(), 400)
			return
		}
		done, err := ses.receiver.Receive(pr, nil)
		if err != nil {
			delete(s.rp, sid)
			s.logReq(r, "receive-error", len(pr.Info.Objects), 400)
			http.Error(w, err.Error(), 400)
			return
		}
		s.logReq(r, "packfile", len(pr.Info.Objects), 200)
		if !done {
			w.WriteHeader(200)
			return
		}
		report := s.applyUpdates(ses.updates)
		delete(s.rp, sid)
		writeJSON(w, &payload.ReceivePackResponse{Updates: report})
		return
	}
	var req payload.ReceivePackRequest
	if err := json.NewDecoder(r.Body).Decode(&req); err != nil {
		s.logReq(r, "bad-json", 0, 400)
		http.Error(w, err.Error(), 400)
		return
	}
	if ses == nil {
		if len(req.Updates) == 0 {
			s.logReq(r, "no-updates", 0, 400)
			http.Error(w, "no updates", 400)
			return
		}
		sid = s.newID()
		ses = &rpSession{updates: req.Updates}
		// an update whose expected old value is not the ref's current value is refused
		var missing [][]byte
		for name, u := range ses.updates {
			cur, err := ref.GetRef(s.RS, name)
			var old []byte
			if u.OldSum != nil {
				old = (*u.OldSum)[:]
			}
			if (err != nil && old != nil) || (err == nil && string(cur) != string(old)) {
				u.ErrMsg = "remote ref updated since checkout"
				continue
			}
			if u.Sum != nil && !objects.CommitExist(s.DB, (*u.Sum)[:]) {
				missing = append(missing, (*u.Sum)[:])
			}
		}
		if len(missing) == 0 {
			report := s.applyUpdates(ses.updates)
			s.logReq(r, "updates-applied", 0, 200)
			writeJSON(w, &payload.ReceivePackResponse{Updates: report})
			return
		}
		ses.receiver = apiutils.NewObjectReceiver(s.DB, missing, logr.Discard())
		s.rp[sid] = ses
		http.SetCookie(w, &http.Cookie{Name: cookie, Value: sid, Path: "/"})
	}
	var acks [][]byte
	for _, t := range req.TableHaves {
		if objects.TableExist(s.DB, (*t)[:]) {
			acks = append(acks, (*t)[:])
		}
	}
	s.logReq(r, "table-acks", 0, 200)
	writeJSON(w, &payload.ReceivePackResponse{TableACKs: payload.BytesSliceToHexSlice(acks)})
}

// Transport returns an http.RoundTripper that hands every request to h in-process (no
// sockets: an exploration of 10^5 sessions would otherwise exhaust the loopback ports).
func Transport(h http.Handler) http.RoundTripper { return memTransport{h} }

type memTransport struct{ h http.Handler }

func (t memTransport) RoundTrip(req *http.Request) (*http.Response, error) {
	rec := httptest.NewRecorder()
	if req.Body == nil {
		req.Body = http.NoBody
	}
	t.h.ServeHTTP(rec, req)
	req.Body.Close()
	resp := rec.Result()
	resp.Request = req
	return resp, nil
}
