#!/bin/bash
# runs every thorough tier once, sequentially; prints one summary line per check (used through `vp run`)
cd "$(dirname "$0")"
./run.sh setup || exit 2
for c in ${@:-C01 C02 C03 C04 C06 C07 C08 C09 C10 C11 C12 C13 C14 C15 C16 C17 C18 C19 C20 C05}; do
  t0=$(date +%s)
  ./run.sh $c thorough > .work/thorough_$c.log 2>&1; rc=$?
  echo "== $c thorough rc=$rc wall=$(( $(date +%s) - t0 ))s violations=$(grep -c '^VIOLATION' .work/thorough_$c.log) nondet=$(grep -c '^NONDET' .work/thorough_$c.log)"
  grep -a '^\[' .work/thorough_$c.log | cut -c1-170
  grep -a -A1 '^VIOLATION\|^NONDET' .work/thorough_$c.log | cut -c1-400 | head -12
done
