#!/bin/bash
# Entry point for every check: ./run.sh setup | ./run.sh <Cxx> <quick|thorough> | ./run.sh replay <file>
set -u
ROOT="$(cd "$(dirname "$0")" && pwd)"
export GOFLAGS=-mod=mod GOPROXY=off GOSUMDB=off GOTOOLCHAIN=local
export TMPDIR="$ROOT/.work/tmp"
mkdir -p "$ROOT/.work/tmp" "$ROOT/bin" "$ROOT/evidence"
cd "$ROOT"

# build_variant <variant>: regenerates the overlay from /repo's current files and builds bin/vcheck[-variant]
build_variant() {
  local v="$1" out="$ROOT/bin/vcheck"
  [ "$v" != plain ] && out="$ROOT/bin/vcheck-$v"
  cp "${VERIF_REPO:-/repo}/go.sum" "$ROOT/go.sum" 2>/dev/null
  if [ ! -x "$ROOT/bin/instr" ] || [ -n "$(find "$ROOT/cmd/instr" -name '*.go' -newer "$ROOT/bin/instr")" ]; then
    go build -o "$ROOT/bin/instr" ./cmd/instr 2>"$ROOT/.work/build.log" || { cat "$ROOT/.work/build.log" >&2; return 2; }
  fi
  # "race" is the sched overlay compiled with the Go race detector (free-running cross-check of C16)
  local ov="$v" flags=""
  [ "$v" = race ] && { ov=sched; flags="-race"; }
  "$ROOT/bin/instr" "$ov" "$ROOT/.work/ov-$v" >"$ROOT/.work/instr-$v.log" 2>&1 || { cat "$ROOT/.work/instr-$v.log" >&2; return 2; }
  go build $flags -overlay "$ROOT/.work/ov-$v/overlay.json" -o "$out" ./cmd/vcheck 2>"$ROOT/.work/build.log"
  local rc=$?
  if [ $rc -ne 0 ]; then
    echo "BUILD FAILED variant=$v (infrastructure, not a violation):" >&2
    cat "$ROOT/.work/build.log" >&2
    return 2
  fi
  return 0
}
build_plain() { build_variant plain; }
# variants a check needs besides plain
variants_of() {
  case "$1" in
    C03|C04|C05|C07|C12|C19|C01|C02) echo b3 ;;
    C16) echo sched race ;;
  esac
}

case "${1:-}" in
  setup)
    build_plain || exit 2
    for v in b3 sched race; do build_variant $v || exit 2; done
    echo "setup ok"
    ;;
  replay)
    build_plain || exit 2
    exec "$ROOT/bin/vcheck" replay "$2"
    ;;
  C[0-9][0-9])
    id="$1"; tier="${2:-quick}"
    build_plain || exit 2
    for v in $(variants_of "$id"); do build_variant $v || exit 2; done
    "$ROOT/bin/vcheck" run "$id" "$tier" "$ROOT"
    rc=$?
    rm -rf "$ROOT/.work/tmp"/* 2>/dev/null
    exit $rc
    ;;
  *)
    echo "usage: $0 setup | <Cxx> <quick|thorough> | replay <file>" >&2
    exit 2
    ;;
esac
