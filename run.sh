#!/bin/bash
# Entry point for every check: ./run.sh setup | ./run.sh <Cxx> <quick|thorough> | ./run.sh replay <file>
set -u
ROOT="$(cd "$(dirname "$0")" && pwd)"
export GOFLAGS=-mod=mod GOPROXY=off GOSUMDB=off GOTOOLCHAIN=local
export TMPDIR="$ROOT/.work/tmp"
mkdir -p "$ROOT/.work/tmp" "$ROOT/bin" "$ROOT/evidence"
cd "$ROOT"

build_plain() {
  cp /repo/go.sum "$ROOT/go.sum" 2>/dev/null
  go build -o "$ROOT/bin/vcheck" ./cmd/vcheck 2>"$ROOT/.work/build.log"
  local rc=$?
  if [ $rc -ne 0 ]; then
    echo "BUILD FAILED (infrastructure, not a violation):" >&2
    cat "$ROOT/.work/build.log" >&2
    return 2
  fi
  return 0
}

case "${1:-}" in
  setup)
    build_plain || exit 2
    echo "setup ok"
    ;;
  replay)
    build_plain || exit 2
    exec "$ROOT/bin/vcheck" replay "$2"
    ;;
  C[0-9][0-9])
    id="$1"; tier="${2:-quick}"
    build_plain || exit 2
    "$ROOT/bin/vcheck" run "$id" "$tier" "$ROOT"
    rc=$?
    rm -rf "$ROOT/.work/tmp"/* 2>/dev/null
    exit $rc
    ;;
  *)
    echo "usage: $0 setup | <Cxx> <quick|thorough> | replay <file>" >&2
    exit 2
    ;;
esac
