#!/bin/bash
# Re-runs every kept mutant and seeded change against the quick tier of its check and prints one line each
# (DETECTED / MISSED). Applies each patch to /repo and reverts it; /repo must be clean.
cd "$(dirname "$0")"
override() { case "$1" in C02-shared-pk-editor|C02-done-before-publish|C03-shared-pk-editor-again) echo C16;; C03-skip-indexing-known-blocks) echo C07;; *) echo "";; esac; }
for p in mutants/*.diff; do
  id=$(basename "$p" | cut -c1-3)
  printf "%s " "$(basename "$p" .diff)"; mutants/run_mutant.sh "$p" "$id" | head -1 | cut -c1-120
done
for d in seeded/C*/; do
  n=$(basename "$d"); id=$(override "$n"); [ -z "$id" ] && id=$(echo "$n" | cut -c1-3)
  printf "%s " "$n"; seeded/try.sh "$d/patch.diff" "$id" | head -1 | cut -c1-120
done
