package stores

import "sync"

// CrashState is the durable state of a process that died right after one store write.
type CrashState struct {
	After string // the write that was the last to take effect ("" = before the first write)
	DB    *MemStore
	RS    *MapRefStore
}

// Recorder snapshots an object store and a ref store after every write of either: because
// every store write is atomic, the snapshot after write k IS the state a process that died
// between write k and write k+1 leaves behind. One uninterrupted run yields all crash states.
type Recorder struct {
	mu     sync.Mutex
	db     *MemStore
	rs     *MapRefStore
	States []*CrashState
}

func NewRecorder(db *MemStore, rs *MapRefStore) *Recorder {
	r := &Recorder{db: db, rs: rs}
	r.States = append(r.States, &CrashState{After: "", DB: db.Snapshot(), RS: rs.Snapshot()})
	db.OnWrite = func(n int, op, key string) { r.snap("obj." + op + " " + prefixOf(key)) }
	rs.OnWrite = func(op string) { r.snap(op) }
	return r
}

func prefixOf(k string) string {
	for i := 0; i < len(k); i++ {
		if k[i] == '/' {
			return k[:i]
		}
	}
	return k
}

func (r *Recorder) snap(op string) {
	r.mu.Lock()
	defer r.mu.Unlock()
	r.States = append(r.States, &CrashState{After: op, DB: r.db.Snapshot(), RS: r.rs.Snapshot()})
}

// Stop detaches the recorder.
func (r *Recorder) Stop() {
	r.db.OnWrite = nil
	r.rs.OnWrite = nil
}
