package stores

import (
	"fmt"
	"time"

	"github.com/google/uuid"
	"github.com/wrgl/wrgl/pkg/objects"
	"github.com/wrgl/wrgl/pkg/ref"
)

// Faults numbers the mutating calls made through FaultObjects / FaultRefs (one shared
// sequence) and can fail or "crash" the k-th one before it takes effect.
type Faults struct {
	N       int      // mutating calls seen so far
	FailAt  int      // 1-based: this call returns ErrInjected without effect
	CrashAt int      // 1-based: this call panics with Crash{} without effect (process death between two atomic writes)
	Log     []string // every mutating call, in order
	Hit     bool     // the armed fault was reached
}

// Crash is the panic value of a simulated process death.
type Crash struct{ At int }

func (f *Faults) before(op string) error {
	if f == nil {
		return nil
	}
	f.N++
	f.Log = append(f.Log, op)
	if f.CrashAt > 0 && f.N == f.CrashAt {
		f.Hit = true
		panic(Crash{f.N})
	}
	if f.FailAt > 0 && f.N == f.FailAt {
		f.Hit = true
		return ErrInjected
	}
	return nil
}

// Reset disarms the faults and restarts numbering.
func (f *Faults) Reset() { f.N, f.FailAt, f.CrashAt, f.Log, f.Hit = 0, 0, 0, nil, false }

// FaultObjects wraps an objects.Store.
type FaultObjects struct {
	objects.Store
	F *Faults
}

func (s *FaultObjects) Set(k, v []byte) error {
	if err := s.F.before(fmt.Sprintf("obj.Set %s", keyKind(k))); err != nil {
		return err
	}
	return s.Store.Set(k, v)
}
func (s *FaultObjects) Delete(k []byte) error {
	if err := s.F.before(fmt.Sprintf("obj.Delete %s", keyKind(k))); err != nil {
		return err
	}
	return s.Store.Delete(k)
}
func (s *FaultObjects) Clear(p []byte) error {
	if err := s.F.before("obj.Clear " + string(p)); err != nil {
		return err
	}
	return s.Store.Clear(p)
}

func keyKind(k []byte) string {
	for i, b := range k {
		if b == '/' {
			return string(k[:i])
		}
	}
	return "?"
}

// FaultRefs wraps a ref.Store.
type FaultRefs struct {
	ref.Store
	F *Faults
}

func (s *FaultRefs) SetWithLog(key string, val []byte, log *ref.Reflog) error {
	if err := s.F.before("ref.SetWithLog " + key); err != nil {
		return err
	}
	return s.Store.SetWithLog(key, val, log)
}
func (s *FaultRefs) Set(key string, val []byte) error {
	if err := s.F.before("ref.Set " + key); err != nil {
		return err
	}
	return s.Store.Set(key, val)
}
func (s *FaultRefs) Delete(key string) error {
	if err := s.F.before("ref.Delete " + key); err != nil {
		return err
	}
	return s.Store.Delete(key)
}
func (s *FaultRefs) Rename(o, n string) error {
	if err := s.F.before("ref.Rename " + o); err != nil {
		return err
	}
	return s.Store.Rename(o, n)
}
func (s *FaultRefs) Copy(o, n string) error {
	if err := s.F.before("ref.Copy " + o); err != nil {
		return err
	}
	return s.Store.Copy(o, n)
}
func (s *FaultRefs) NewTransaction(tx *ref.Transaction) (*uuid.UUID, error) {
	if err := s.F.before("ref.NewTransaction"); err != nil {
		return nil, err
	}
	return s.Store.NewTransaction(tx)
}
func (s *FaultRefs) UpdateTransaction(tx *ref.Transaction) error {
	if err := s.F.before("ref.UpdateTransaction"); err != nil {
		return err
	}
	return s.Store.UpdateTransaction(tx)
}
func (s *FaultRefs) DeleteTransaction(id uuid.UUID) error {
	if err := s.F.before("ref.DeleteTransaction"); err != nil {
		return err
	}
	return s.Store.DeleteTransaction(id)
}
func (s *FaultRefs) GCTransactions(ttl time.Duration) ([]uuid.UUID, error) {
	if err := s.F.before("ref.GCTransactions"); err != nil {
		return nil, err
	}
	return s.Store.GCTransactions(ttl)
}
