package stores

import (
	"sync"

	"github.com/wrgl/wrgl/pkg/objects"
)

// Overlay is an objects.Store whose writes go to Top while reads fall through to Base:
// code under test can read shared fixtures without being able to alter them.
type Overlay struct {
	Base objects.Store
	Top  *MemStore
	// fault injection on reads: the FailGetAt-th Get fails; every Get from the FailGetFrom-th on fails
	Gets, FailGetAt, FailGetFrom, Injected int
	mu                                     sync.Mutex
}

func NewOverlay(base objects.Store) *Overlay { return &Overlay{Base: base, Top: NewMemStore()} }

func (o *Overlay) Get(k []byte) ([]byte, error) {
	o.mu.Lock()
	o.Gets++
	fail := (o.FailGetAt > 0 && o.Gets == o.FailGetAt) || (o.FailGetFrom > 0 && o.Gets >= o.FailGetFrom)
	if fail {
		o.Injected++
	}
	o.mu.Unlock()
	if fail {
		return nil, ErrInjected
	}
	if v, err := o.Top.Get(k); err == nil {
		return v, nil
	}
	return o.Base.Get(k)
}
func (o *Overlay) Set(k, v []byte) error { return o.Top.Set(k, v) }
func (o *Overlay) Delete(k []byte) error { return o.Top.Delete(k) }
func (o *Overlay) Exist(k []byte) bool   { return o.Top.Exist(k) || o.Base.Exist(k) }
func (o *Overlay) Clear(p []byte) error  { return o.Top.Clear(p) }
func (o *Overlay) Close() error          { return nil }
func (o *Overlay) Filter(p []byte) (map[string][]byte, error) {
	m, err := o.Base.Filter(p)
	if err != nil {
		return nil, err
	}
	t, _ := o.Top.Filter(p)
	for k, v := range t {
		m[k] = v
	}
	return m, nil
}
func (o *Overlay) FilterKey(p []byte) ([][]byte, error) {
	m, err := o.Filter(p)
	if err != nil {
		return nil, err
	}
	var out [][]byte
	for k := range m {
		out = append(out, []byte(k))
	}
	return out, nil
}
