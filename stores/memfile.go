// Package stores holds the storage seams the harnesses own: an os.File-like in-memory file,
// recording / fault-injecting / snapshotting object and ref stores.
package stores

import (
	"errors"
	"io"
)

// MemFile has the read/write/seek semantics of an *os.File opened O_RDWR: reads at or past
// the end return (0, io.EOF), short reads happen at the end, writes past the end zero-fill.
type MemFile struct {
	Data   []byte
	off    int64
	Closed bool
	Reads  int
	Writes int
}

func (m *MemFile) Read(p []byte) (int, error) {
	if m.Closed {
		return 0, errors.New("memfile: closed")
	}
	m.Reads++
	if len(p) == 0 {
		return 0, nil
	}
	if m.off >= int64(len(m.Data)) {
		return 0, io.EOF
	}
	n := copy(p, m.Data[m.off:])
	m.off += int64(n)
	return n, nil
}

func (m *MemFile) Write(p []byte) (int, error) {
	if m.Closed {
		return 0, errors.New("memfile: closed")
	}
	m.Writes++
	end := m.off + int64(len(p))
	if end > int64(len(m.Data)) {
		m.Data = append(m.Data, make([]byte, end-int64(len(m.Data)))...)
	}
	copy(m.Data[m.off:], p)
	m.off = end
	return len(p), nil
}

func (m *MemFile) Seek(off int64, whence int) (int64, error) {
	if m.Closed {
		return 0, errors.New("memfile: closed")
	}
	var n int64
	switch whence {
	case io.SeekStart:
		n = off
	case io.SeekCurrent:
		n = m.off + off
	case io.SeekEnd:
		n = int64(len(m.Data)) + off
	}
	if n < 0 {
		return 0, errors.New("memfile: negative position")
	}
	m.off = n
	return n, nil
}

func (m *MemFile) Close() error {
	m.Closed = true
	return nil
}

// Reopen returns a fresh handle on the same bytes (as reopening the file would).
func (m *MemFile) Reopen() *MemFile {
	return &MemFile{Data: m.Data}
}

// ReopenAtEnd is Reopen with the cursor at the end of the data (a handle that was read or appended to
// before it is handed over, like the repository's misc.NewBuffer over existing bytes).
func (m *MemFile) ReopenAtEnd() *MemFile {
	return &MemFile{Data: m.Data, off: int64(len(m.Data))}
}
