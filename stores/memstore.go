package stores

import (
	"errors"
	"sort"
	"strings"
	"sync"

	"github.com/wrgl/wrgl/pkg/objects"
)

// MemStore is a goroutine-safe in-memory objects.Store that counts and logs calls, can
// fail the k-th call of a kind, and can snapshot itself after every write.
type MemStore struct {
	mu sync.Mutex
	m  map[string][]byte

	// counters
	Gets, Sets, Deletes, Exists, Filters int
	// Log of write operations ("set <key>", "del <key>"), kept when LogWrites is true.
	LogWrites bool
	WriteLog  []string
	// FailSetAt / FailGetAt / FailDeleteAt: 1-based index of the call that returns ErrInjected (0 = never).
	FailSetAt, FailGetAt, FailDeleteAt int
	// FailWriteAt: 1-based index over Set+Delete+Clear calls.
	FailWriteAt int
	// FailWriteFrom: every write from this 1-based index on fails (a store that stays broken).
	FailWriteFrom int
	writes        int
	// OnWrite is called (without the lock) after every successful write with the write's ordinal.
	OnWrite func(n int, op string, key string)
	// Injected counts injected errors actually returned.
	Injected int
}

var ErrInjected = errors.New("injected store failure")

func NewMemStore() *MemStore { return &MemStore{m: map[string][]byte{}} }

func (s *MemStore) Get(key []byte) ([]byte, error) {
	s.mu.Lock()
	defer s.mu.Unlock()
	s.Gets++
	if s.FailGetAt > 0 && s.Gets == s.FailGetAt {
		s.Injected++
		return nil, ErrInjected
	}
	if v, ok := s.m[string(key)]; ok {
		return append([]byte(nil), v...), nil
	}
	return nil, objects.ErrKeyNotFound
}

func (s *MemStore) wrote(op, key string) (int, func(int, string, string)) {
	s.writes++
	if s.LogWrites {
		s.WriteLog = append(s.WriteLog, op+" "+key)
	}
	return s.writes, s.OnWrite
}

func (s *MemStore) failWrite() bool {
	if (s.FailWriteAt > 0 && s.writes+1 == s.FailWriteAt) || (s.FailWriteFrom > 0 && s.writes+1 >= s.FailWriteFrom) {
		s.writes++
		s.Injected++
		return true
	}
	return false
}

func (s *MemStore) Set(key, val []byte) error {
	s.mu.Lock()
	s.Sets++
	if (s.FailSetAt > 0 && s.Sets == s.FailSetAt) || s.failWrite() {
		if s.FailSetAt > 0 && s.Sets == s.FailSetAt {
			s.Injected++
		}
		s.mu.Unlock()
		return ErrInjected
	}
	s.m[string(key)] = append([]byte(nil), val...)
	n, cb := s.wrote("set", string(key))
	s.mu.Unlock()
	if cb != nil {
		cb(n, "set", string(key))
	}
	return nil
}

func (s *MemStore) Delete(key []byte) error {
	s.mu.Lock()
	s.Deletes++
	if (s.FailDeleteAt > 0 && s.Deletes == s.FailDeleteAt) || s.failWrite() {
		if s.FailDeleteAt > 0 && s.Deletes == s.FailDeleteAt {
			s.Injected++
		}
		s.mu.Unlock()
		return ErrInjected
	}
	delete(s.m, string(key))
	n, cb := s.wrote("del", string(key))
	s.mu.Unlock()
	if cb != nil {
		cb(n, "del", string(key))
	}
	return nil
}

func (s *MemStore) Exist(key []byte) bool {
	s.mu.Lock()
	defer s.mu.Unlock()
	s.Exists++
	_, ok := s.m[string(key)]
	return ok
}

func (s *MemStore) Filter(prefix []byte) (map[string][]byte, error) {
	s.mu.Lock()
	defer s.mu.Unlock()
	s.Filters++
	m := map[string][]byte{}
	for k, v := range s.m {
		if strings.HasPrefix(k, string(prefix)) {
			m[k] = append([]byte(nil), v...)
		}
	}
	return m, nil
}

// FilterKey returns keys in ascending order, as the Badger store does.
func (s *MemStore) FilterKey(prefix []byte) ([][]byte, error) {
	s.mu.Lock()
	defer s.mu.Unlock()
	s.Filters++
	var ks []string
	for k := range s.m {
		if strings.HasPrefix(k, string(prefix)) {
			ks = append(ks, k)
		}
	}
	sort.Strings(ks)
	keys := make([][]byte, len(ks))
	for i, k := range ks {
		keys[i] = []byte(k)
	}
	return keys, nil
}

func (s *MemStore) Clear(prefix []byte) error {
	s.mu.Lock()
	if s.failWrite() {
		s.mu.Unlock()
		return ErrInjected
	}
	for k := range s.m {
		if strings.HasPrefix(k, string(prefix)) {
			delete(s.m, k)
		}
	}
	n, cb := s.wrote("clear", string(prefix))
	s.mu.Unlock()
	if cb != nil {
		cb(n, "clear", string(prefix))
	}
	return nil
}

func (s *MemStore) Close() error { return nil }

// Writes returns the number of write calls so far (including a failed injected one).
func (s *MemStore) Writes() int {
	s.mu.Lock()
	defer s.mu.Unlock()
	return s.writes
}

// Snapshot returns a deep copy of the contents (a new, uninstrumented store).
func (s *MemStore) Snapshot() *MemStore {
	s.mu.Lock()
	defer s.mu.Unlock()
	c := NewMemStore()
	for k, v := range s.m {
		c.m[k] = append([]byte(nil), v...)
	}
	return c
}

// Keys returns all keys in ascending order.
func (s *MemStore) Keys() []string {
	s.mu.Lock()
	defer s.mu.Unlock()
	ks := make([]string, 0, len(s.m))
	for k := range s.m {
		ks = append(ks, k)
	}
	sort.Strings(ks)
	return ks
}

// Raw returns the stored bytes of key (nil if absent), without counting.
func (s *MemStore) Raw(key string) []byte {
	s.mu.Lock()
	defer s.mu.Unlock()
	return s.m[key]
}

// PutRaw stores bytes without counting or hooks.
func (s *MemStore) PutRaw(key string, val []byte) {
	s.mu.Lock()
	s.m[key] = append([]byte(nil), val...)
	s.mu.Unlock()
}

// DeleteRaw removes a key without counting or hooks.
func (s *MemStore) DeleteRaw(key string) {
	s.mu.Lock()
	delete(s.m, key)
	s.mu.Unlock()
}

// ResetCounters zeroes counters and fault positions.
func (s *MemStore) ResetCounters() {
	s.mu.Lock()
	s.Gets, s.Sets, s.Deletes, s.Exists, s.Filters, s.writes, s.Injected = 0, 0, 0, 0, 0, 0, 0
	s.WriteLog = nil
	s.mu.Unlock()
}

// Len returns the number of keys.
func (s *MemStore) Len() int {
	s.mu.Lock()
	defer s.mu.Unlock()
	return len(s.m)
}
