package stores

import (
	"database/sql"
	"fmt"
	"sync/atomic"

	_ "github.com/mattn/go-sqlite3"

	refsql "github.com/wrgl/wrgl/pkg/ref/sql"
	"github.com/wrgl/wrgl/pkg/sqlutil"
)

var memDBSeq int64

// NewMemRefStore creates the repository's real SQL ref store over a private in-memory SQLite
// database (the same schema the repository creates on disk).
func NewMemRefStore() (*refsql.Store, *sql.DB, func()) {
	n := atomic.AddInt64(&memDBSeq, 1)
	db, err := sql.Open("sqlite3", fmt.Sprintf("file:verif%d.db?cache=shared&mode=memory", n))
	if err != nil {
		panic(err)
	}
	if err := sqlutil.RunInTx(db, func(tx *sql.Tx) error {
		for _, stmt := range refsql.CreateTableStmts {
			if _, err := tx.Exec(stmt); err != nil {
				return err
			}
		}
		return nil
	}); err != nil {
		panic(err)
	}
	return refsql.NewStore(db), db, func() { db.Close() }
}
