package stores

import (
	"errors"
	"sort"
	"strings"
	"sync"
	"time"

	"github.com/google/uuid"
	"github.com/wrgl/wrgl/pkg/ref"
)

// MapRefStore is a plain map-backed ref.Store used where the ref store is only a fixture
// (the code under test merely lists or reads refs). It keeps no logs and no transactions.
type MapRefStore struct {
	mu sync.Mutex
	M  map[string][]byte
	// OnWrite, when set, is called (without the lock) after every mutating call.
	OnWrite func(op string)
}

func (s *MapRefStore) wrote(op string) {
	if s.OnWrite != nil {
		s.OnWrite(op)
	}
}

// Snapshot returns a copy of the refs.
func (s *MapRefStore) Snapshot() *MapRefStore {
	s.mu.Lock()
	defer s.mu.Unlock()
	c := NewMapRefStore()
	for k, v := range s.M {
		c.M[k] = append([]byte(nil), v...)
	}
	return c
}

func NewMapRefStore() *MapRefStore { return &MapRefStore{M: map[string][]byte{}} }

var errNotImpl = errors.New("maprefstore: not implemented")

func (s *MapRefStore) SetWithLog(key string, val []byte, log *ref.Reflog) error {
	return s.Set(key, val)
}
func (s *MapRefStore) Set(key string, val []byte) error {
	s.mu.Lock()
	s.M[key] = append([]byte(nil), val...)
	s.mu.Unlock()
	s.wrote("ref.Set " + key)
	return nil
}
func (s *MapRefStore) Get(key string) ([]byte, error) {
	s.mu.Lock()
	defer s.mu.Unlock()
	if v, ok := s.M[key]; ok {
		return append([]byte(nil), v...), nil
	}
	return nil, ref.ErrKeyNotFound
}
func (s *MapRefStore) Delete(key string) error {
	s.mu.Lock()
	delete(s.M, key)
	s.mu.Unlock()
	s.wrote("ref.Delete " + key)
	return nil
}
func match(k string, prefixes, notPrefixes []string) bool {
	ok := len(prefixes) == 0
	for _, p := range prefixes {
		if strings.HasPrefix(k, p) {
			ok = true
		}
	}
	for _, p := range notPrefixes {
		if strings.HasPrefix(k, p) {
			ok = false
		}
	}
	return ok
}
func (s *MapRefStore) Filter(prefixes, notPrefixes []string) (map[string][]byte, error) {
	s.mu.Lock()
	defer s.mu.Unlock()
	m := map[string][]byte{}
	for k, v := range s.M {
		if match(k, prefixes, notPrefixes) {
			m[k] = append([]byte(nil), v...)
		}
	}
	return m, nil
}
func (s *MapRefStore) FilterKey(prefixes, notPrefixes []string) ([]string, error) {
	s.mu.Lock()
	defer s.mu.Unlock()
	var keys []string
	for k := range s.M {
		if match(k, prefixes, notPrefixes) {
			keys = append(keys, k)
		}
	}
	sort.Strings(keys)
	return keys, nil
}
func (s *MapRefStore) Rename(oldKey, newKey string) error {
	s.mu.Lock()
	defer s.mu.Unlock()
	v, ok := s.M[oldKey]
	if !ok {
		return ref.ErrKeyNotFound
	}
	s.M[newKey] = v
	delete(s.M, oldKey)
	return nil
}
func (s *MapRefStore) Copy(srcKey, dstKey string) error {
	s.mu.Lock()
	defer s.mu.Unlock()
	v, ok := s.M[srcKey]
	if !ok {
		return ref.ErrKeyNotFound
	}
	s.M[dstKey] = append([]byte(nil), v...)
	return nil
}
func (s *MapRefStore) LogReader(key string) (ref.ReflogReader, error) { return nil, ref.ErrKeyNotFound }
func (s *MapRefStore) NewTransaction(tx *ref.Transaction) (*uuid.UUID, error) {
	return nil, errNotImpl
}
func (s *MapRefStore) GetTransaction(id uuid.UUID) (*ref.Transaction, error) { return nil, errNotImpl }
func (s *MapRefStore) UpdateTransaction(tx *ref.Transaction) error           { return errNotImpl }
func (s *MapRefStore) DeleteTransaction(id uuid.UUID) error                  { return errNotImpl }
func (s *MapRefStore) GCTransactions(txTTL time.Duration) ([]uuid.UUID, error) {
	return nil, nil
}
func (s *MapRefStore) GetTransactionLogs(txid uuid.UUID) (map[string]*ref.Reflog, error) {
	return nil, errNotImpl
}
func (s *MapRefStore) ListTransactions(offset, limit int) ([]*ref.Transaction, error) {
	return nil, nil
}
