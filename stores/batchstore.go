package stores

import (
	"bytes"

	"github.com/wrgl/wrgl/pkg/objects"
)

// BatchStore is an objects.Store that, like a Badger transaction (and the repository's own objbadger.Txn),
// keeps the key and value slices it is handed WITHOUT copying them until Commit. A caller that reuses or
// overwrites a key or value buffer after Set returns corrupts what is committed.
type BatchStore struct {
	Inner *MemStore
	pend  []batchEntry
}

type batchEntry struct{ k, v []byte }

func NewBatchStore() *BatchStore { return &BatchStore{Inner: NewMemStore()} }

func (s *BatchStore) Set(k, v []byte) error {
	s.pend = append(s.pend, batchEntry{k, v})
	return nil
}

func (s *BatchStore) Get(k []byte) ([]byte, error) {
	for i := len(s.pend) - 1; i >= 0; i-- {
		if bytes.Equal(s.pend[i].k, k) {
			return append([]byte{}, s.pend[i].v...), nil
		}
	}
	return s.Inner.Get(k)
}

func (s *BatchStore) Exist(k []byte) bool {
	for _, e := range s.pend {
		if bytes.Equal(e.k, k) {
			return true
		}
	}
	return s.Inner.Exist(k)
}

// Commit writes the retained entries, as they are NOW, to the inner store.
func (s *BatchStore) Commit() error {
	for _, e := range s.pend {
		if err := s.Inner.Set(e.k, e.v); err != nil {
			return err
		}
	}
	s.pend = nil
	return nil
}

func (s *BatchStore) Delete(k []byte) error                      { return s.Inner.Delete(k) }
func (s *BatchStore) Filter(p []byte) (map[string][]byte, error) { return s.Inner.Filter(p) }
func (s *BatchStore) FilterKey(p []byte) ([][]byte, error)       { return s.Inner.FilterKey(p) }
func (s *BatchStore) Clear(p []byte) error                       { return s.Inner.Clear(p) }
func (s *BatchStore) Close() error                               { return nil }

var _ objects.Store = (*BatchStore)(nil)
