// vcheck runs the bounded-exhaustive checks of /verif against the wrgl code in /repo.
package main

import (
	"encoding/json"
	"fmt"
	"os"
	"strconv"
	"strings"
	"time"

	"os/exec"
	"runtime/pprof"

	"github.com/wrgl/wrgl/pkg/verifrt"

	"verif/checks"
	"verif/mc"
)

func myVariant() string {
	if verifrt.Variant == "plain" {
		return ""
	}
	return verifrt.Variant
}

func usage() {
	fmt.Fprintln(os.Stderr, "usage: vcheck run <Cxx> <quick|thorough> <root> [variant] | worker … | replay <file> | list")
	os.Exit(2)
}

func find(id string) *mc.Check {
	for _, c := range checks.All() {
		if c.ID == id {
			return c
		}
	}
	return nil
}

func findHarness(c *mc.Check, name string) *mc.Harness {
	for _, h := range c.Harnesses {
		if h.Name == name {
			return h
		}
	}
	return nil
}

func main() {
	if len(os.Args) < 2 {
		usage()
	}
	switch os.Args[1] {
	case "list":
		for _, c := range checks.All() {
			vs := map[string]bool{}
			for _, h := range c.Harnesses {
				vs[h.Variant] = true
			}
			var l []string
			for v := range vs {
				if v == "" {
					v = "plain"
				}
				l = append(l, v)
			}
			fmt.Println(c.ID, strings.Join(l, ","))
		}
	case "run":
		if len(os.Args) < 5 {
			usage()
		}
		c := find(os.Args[2])
		if c == nil {
			fmt.Fprintln(os.Stderr, "unknown check", os.Args[2])
			os.Exit(2)
		}
		os.Exit(mc.Drive(c, os.Args[3], os.Args[4], myVariant()))
	case "cli":
		// vcheck cli <wrgl-dir> <home> args...: run the real wrgl command tree in this process
		// (used as a killable subprocess by the crash tier)
		if len(os.Args) < 5 {
			usage()
		}
		os.Exit(checks.RunCLI(os.Args[2], os.Args[3], os.Args[4:]))
	case "inproc":
		a := os.Args[2:]
		if len(a) < 4 {
			usage()
		}
		c := find(a[0])
		if c == nil {
			os.Exit(3)
		}
		h := findHarness(c, a[1])
		if h == nil || h.InProc == nil {
			os.Exit(3)
		}
		mc.RunInProc(c, h, a[2], a[3])
	case "worker":
		// worker <id> <harness> <tier> <shard> <of> <out> <deadline-unix> <limit> <skip>
		a := os.Args[2:]
		if len(a) < 9 {
			usage()
		}
		c := find(a[0])
		if c == nil {
			os.Exit(3)
		}
		h := findHarness(c, a[1])
		if h == nil {
			os.Exit(3)
		}
		shard, _ := strconv.Atoi(a[3])
		of, _ := strconv.Atoi(a[4])
		dl, _ := strconv.ParseInt(a[6], 10, 64)
		limit, _ := strconv.ParseInt(a[7], 10, 64)
		w := &mc.Worker{Property: c.ID, Harness: h.Name, Tier: a[2], Shard: shard, Of: of, OutPath: a[5],
			Deadline: time.Unix(dl, 0), Limit: limit}
		if h.DevBound != nil {
			w.DevBound = h.DevBound[a[2]]
		}
		var skip []int64
		for _, s := range strings.Split(a[8], ",") {
			if s != "" {
				k, _ := strconv.ParseInt(s, 10, 64)
				skip = append(skip, k)
			}
		}
		w.SetSkip(skip)
		if pf := os.Getenv("VERIF_CPUPROFILE"); pf != "" {
			if f, err := os.Create(pf); err == nil {
				pprof.StartCPUProfile(f)
				defer pprof.StopCPUProfile()
			}
		}
		func() {
			defer func() {
				if r := recover(); r != nil {
					if s, ok := r.(string); ok && strings.HasPrefix(s, "mc: ") {
						fmt.Fprintln(os.Stderr, s)
						os.Exit(3)
					}
					panic(r)
				}
			}()
			w.Run(h.Body)
		}()
	case "replay":
		if len(os.Args) < 3 {
			usage()
		}
		b, err := os.ReadFile(os.Args[2])
		if err != nil {
			fmt.Fprintln(os.Stderr, err)
			os.Exit(2)
		}
		var v mc.Violation
		if err := json.Unmarshal(b, &v); err != nil {
			fmt.Fprintln(os.Stderr, err)
			os.Exit(2)
		}
		c := find(v.Property)
		if c == nil {
			os.Exit(2)
		}
		h := findHarness(c, v.Harness)
		if h == nil {
			os.Exit(2)
		}
		if h.Variant != myVariant() {
			cmd := exec.Command(mc.ExeFor(h.Variant), os.Args[1:]...)
			cmd.Stdout, cmd.Stderr = os.Stdout, os.Stderr
			if err := cmd.Run(); err != nil {
				if ee, ok := err.(*exec.ExitError); ok {
					os.Exit(ee.ExitCode())
				}
				os.Exit(2)
			}
			return
		}
		quiet := os.Getenv("VERIF_QUIET") != ""
		if h.InProc != nil {
			if h.ReplayTrace == nil {
				os.Exit(2)
			}
			class, vio := h.ReplayTrace(v.Choices)
			if vio != "" {
				if !quiet {
					fmt.Printf("VIOLATION property=%s replay=%s\n  class=%q %s\n", v.Property, os.Args[2], class, vio)
				}
				os.Exit(1)
			}
			if !quiet {
				fmt.Println("replay: no violation")
			}
			return
		}
		db := 0
		if h.DevBound != nil {
			db = h.DevBound[v.Tier]
		}
		var res *mc.Result
		var log []string
		if len(v.Choices2) > 0 {
			res, log = mc.ReplayPair(v.Property, v.Harness, v.Tier, db, v.Choices2, v.Choices, h.Body)
		} else {
			res, log = mc.Replay(v.Property, v.Harness, v.Tier, db, v.Choices, h.Body)
		}
		if !quiet {
			for _, l := range log {
				fmt.Println("  |", l)
			}
		}
		if len(res.Violations) > 0 {
			if !quiet {
				fmt.Printf("VIOLATION property=%s replay=%s\n", v.Property, os.Args[2])
				for _, x := range res.Violations {
					fmt.Printf("  class=%q %s\n", x.Class, x.Message)
				}
			}
			os.Exit(1)
		}
		if !quiet {
			fmt.Println("replay: no violation")
		}
	default:
		usage()
	}
}
