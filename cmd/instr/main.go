// instr generates a `go build -overlay` description from the CURRENT files of /repo: the
// virtual package pkg/verifrt plus exact-match source rewrites. /repo is never modified.
//
//	instr <variant> <outdir>      variant: plain | b3 | sched
//
// A rewrite whose target text is not found is skipped and not listed in verifrt.Applied;
// harnesses that depend on it then fail closed (infrastructure error, never a violation).
package main

import (
	"encoding/json"
	"fmt"
	"os"
	"path/filepath"
	"regexp"
	"strings"
)

// repo is the tree that is instrumented: /repo, or a scratch copy named by VERIF_REPO (used to run
// detection sweeps in parallel with other work)
var repo = func() string {
	if r := os.Getenv("VERIF_REPO"); r != "" {
		return r
	}
	return "/repo"
}()

type rewrite struct {
	name  string
	file  string
	edits [][2]string // old, new (every occurrence of old must be replaced; count >= 1)
	count []int       // expected number of occurrences per edit (0 = at least one)
	imp   bool        // add the verifrt import
}

// Every occurrence of a listed loop header is rewritten (count 0 = at least one): a change to the
// repository that adds another loop over the same map keeps the check running instead of turning it
// into an infrastructure error.
func mapOrderRewrites() []rewrite {
	return []rewrite{
		{
			name: "maporder:finder", file: "pkg/api/utils/closed_sets_finder.go", imp: true,
			edits: [][2]string{{"for want := range f.Wants {", "for _, want := range verifrt.MapOrder(\"finder.Wants\", f.Wants) {"}},
			count: []int{0},
		},
		{
			name: "maporder:finder-refs", file: "pkg/api/utils/closed_sets_finder.go", imp: true,
			edits: [][2]string{{"for _, v := range m {", "for _, mk := range verifrt.MapOrder(\"finder.Refs\", m) {\n\t\tv := m[mk]"}},
			count: []int{0},
		},
		{
			name: "maporder:fetch-refs", file: "pkg/api/client/upload_pack_session.go", imp: true,
			edits: [][2]string{{"for _, v := range m {", "for _, mk := range verifrt.MapOrder(\"fetch.Refs\", m) {\n\t\tv := m[mk]"}},
			count: []int{0},
		},
		{
			name: "maporder:push-tables", file: "pkg/api/client/receive_pack_session.go", imp: true,
			edits: [][2]string{
				{"for sum := range s.tablesToSend {", "for _, sum := range verifrt.MapOrder(\"push.Tables\", s.tablesToSend) {"},
				{"for _, sum := range remoteRefs {", "for _, mk := range verifrt.MapOrder(\"push.RemoteRefs\", remoteRefs) {\n\t\tsum := remoteRefs[mk]"},
			},
			count: []int{0, 0},
		},
		{
			name: "maporder:transaction", file: "pkg/transaction/transaction.go", imp: true,
			edits: [][2]string{{"for branch, sum := range m {", "for _, branch := range verifrt.MapOrder(\"transaction.Commit\", m) {\n\t\tsum := m[branch]"}},
			count: []int{0},
		},
	}
}

// crash hook: every mutating method of the two on-disk stores first reports to verifrt.Write,
// which can end the process at the k-th write (VERIF_CRASH_AT) - a no-op otherwise.
func crashHookRewrites() []rewrite {
	hook := func(sig, name string) [2]string {
		return [2]string{sig, sig + "\n\tverifrt.Write(\"" + name + "\")"}
	}
	return []rewrite{
		{name: "crashhook:badger", file: "pkg/objects/badger/store.go", imp: true, edits: [][2]string{
			hook("func (s *Store) Set(k, v []byte) error {", "badger.Set"),
			hook("func (s *Store) Delete(k []byte) error {", "badger.Delete"),
			hook("func (s *Store) Clear(prefix []byte) error {", "badger.Clear"),
		}, count: []int{1, 1, 1}},
		{name: "crashhook:refsql", file: "pkg/ref/sql/store.go", imp: true, edits: [][2]string{
			hook("func (s *Store) Set(key string, sum []byte) error {", "refsql.Set"),
			hook("func (s *Store) SetWithLog(key string, sum []byte, rl *ref.Reflog) error {", "refsql.SetWithLog"),
			hook("func (s *Store) Delete(key string) error {", "refsql.Delete"),
			hook("func (s *Store) Rename(oldKey, newKey string) (err error) {", "refsql.Rename"),
			hook("func (s *Store) Copy(srcKey, dstKey string) (err error) {", "refsql.Copy"),
			hook("func (s *Store) UpdateTransaction(tx *ref.Transaction) error {", "refsql.UpdateTransaction"),
			hook("func (s *Store) DeleteTransaction(id uuid.UUID) error {", "refsql.DeleteTransaction"),
		}, count: []int{1, 1, 1, 1, 1, 1, 1}},
	}
}

func blockSizeRewrites(n int) []rewrite {
	s := fmt.Sprint(n)
	return []rewrite{
		{name: "blocksize:block", file: "pkg/objects/block.go", edits: [][2]string{{"const BlockSize = 255", "const BlockSize = " + s}}, count: []int{1}},
		{name: "blocksize:table", file: "pkg/objects/table.go", edits: [][2]string{{"float64(255)", "float64(" + s + ")"}}, count: []int{2}},
		{name: "blocksize:sorter", file: "pkg/sorter/sorter.go", edits: [][2]string{
			{"make([][]byte, 0, 255)", "make([][]byte, 0, " + s + ")"},
			{"len(blk) == 255", "len(blk) == " + s},
			{"make([][]string, 0, 255)", "make([][]string, 0, " + s + ")"},
			{"len(rows) == 255", "len(rows) == " + s},
		}, count: []int{1, 1, 2, 1}},
	}
}

func main() {
	if len(os.Args) < 3 {
		fmt.Fprintln(os.Stderr, "usage: instr <variant> <outdir>")
		os.Exit(2)
	}
	variant, out := os.Args[1], os.Args[2]
	os.RemoveAll(out)
	if err := os.MkdirAll(out, 0755); err != nil {
		fatal(err)
	}
	var rws []rewrite
	// the typed map-range pass owns every map iteration of its packages; the exact-text rewrites below
	// it are the fallback for a name the pass could not provide (e.g. a tree it cannot type-check)
	typedContents, typedApplied := mapRangePass()
	provided := map[string]bool{}
	for _, a := range typedApplied {
		provided[a] = true
	}
	for _, rw := range mapOrderRewrites() {
		if !provided[rw.name] {
			rws = append(rws, rw)
		}
	}
	rws = append(rws, crashHookRewrites()...)
	// hang check: waiting for a progress bar that is still running after it was told to complete
	// would block forever (nothing else completes it); report it instead of blocking
	rws = append(rws, rewrite{
		name: "hangcheck:pbar", file: "pkg/pbar/bar.go", imp: true,
		edits: [][2]string{{"\t\tb.b.Wait()", "\t\tverifrt.BarWait(b.b.IsRunning, b.b.Wait)"}},
		count: []int{2},
	})
	// the number of candidate tables a push offers per negotiation request: a harness can lower it so
	// that multi-request table negotiations are explored with two or three tables instead of 257
	rws = append(rws, rewrite{
		name: "batchsize:push-tables", file: "pkg/api/client/receive_pack_session.go", imp: true,
		edits: [][2]string{{"for i := 0; i < 256; i++ {", "for i := 0; i < verifrt.PushTableBatch(); i++ {"}},
		count: []int{1},
	})
	switch variant {
	case "plain":
	case "b3":
		rws = append(rws, blockSizeRewrites(3)...)
	case "sched":
		rws = append(rws, blockSizeRewrites(3)...)
	default:
		if extra, ok := extraVariants[variant]; ok {
			rws = append(rws, extra()...)
		} else {
			fatal(fmt.Errorf("unknown variant %q", variant))
		}
	}
	replace := map[string]string{}
	contents := typedContents
	applied := typedApplied
	for _, rw := range rws {
		src, ok := contents[rw.file]
		if !ok {
			b, err := os.ReadFile(filepath.Join(repo, rw.file))
			if err != nil {
				fmt.Fprintf(os.Stderr, "instr: skip %s: %v\n", rw.name, err)
				continue
			}
			src = string(b)
		}
		okAll := true
		mod := src
		for i, e := range rw.edits {
			c := strings.Count(mod, e[0])
			if c == 0 || (rw.count[i] > 0 && c != rw.count[i]) {
				fmt.Fprintf(os.Stderr, "instr: skip %s: %q occurs %d times in %s (expected %d)\n", rw.name, e[0], c, rw.file, rw.count[i])
				okAll = false
				break
			}
			mod = strings.ReplaceAll(mod, e[0], e[1])
		}
		if !okAll {
			continue
		}
		if rw.imp && !strings.Contains(mod, "pkg/verifrt\"") {
			i := strings.Index(mod, "import (\n")
			if i < 0 {
				fmt.Fprintf(os.Stderr, "instr: skip %s: no import block in %s\n", rw.name, rw.file)
				continue
			}
			mod = mod[:i+9] + "\tverifrt \"github.com/wrgl/wrgl/pkg/verifrt\"\n" + mod[i+9:]
		}
		contents[rw.file] = mod
		applied = append(applied, rw.name)
	}
	// statement-level crash points in the SQL ref store: a kill between two statements of one
	// method (SQLite rolls an open transaction back; separate statements stay applied)
	{
		const f = "pkg/ref/sql/store.go"
		src, ok := contents[f]
		if !ok {
			if b, err := os.ReadFile(filepath.Join(repo, f)); err == nil {
				src, ok = string(b), true
			}
		}
		if ok {
			lines := strings.Split(src, "\n")
			var out []string
			n := 0
			for _, l := range lines {
				if strings.Contains(l, ".Exec(") && !strings.HasPrefix(strings.TrimSpace(l), "//") {
					ind := l[:len(l)-len(strings.TrimLeft(l, "\t"))]
					out = append(out, ind+"verifrt.Write(\"refsql.stmt\")")
					n++
				}
				out = append(out, l)
			}
			if n > 0 {
				mod := strings.Join(out, "\n")
				if !strings.Contains(mod, "pkg/verifrt\"") {
					if i := strings.Index(mod, "import (\n"); i >= 0 {
						mod = mod[:i+9] + "\tverifrt \"github.com/wrgl/wrgl/pkg/verifrt\"\n" + mod[i+9:]
					}
				}
				contents[f] = mod
				applied = append(applied, "crashhook:refsql-stmt")
			}
		}
	}
	if variant == "sched" {
		for _, f := range schedFiles {
			src, ok := contents[f]
			if !ok {
				b, err := os.ReadFile(filepath.Join(repo, f))
				if err != nil {
					fmt.Fprintf(os.Stderr, "instr: sched: %v\n", err)
					continue
				}
				src = string(b)
			}
			mod, n := schedRewrite(f, src)
			if n == 0 {
				fmt.Fprintf(os.Stderr, "instr: sched: nothing rewritten in %s\n", f)
				continue
			}
			contents[f] = mod
			applied = append(applied, "sched:"+f)
		}
	}
	for f, c := range contents {
		p := filepath.Join(out, "src", f)
		os.MkdirAll(filepath.Dir(p), 0755)
		if err := os.WriteFile(p, []byte(c), 0644); err != nil {
			fatal(err)
		}
		replace[filepath.Join(repo, f)] = p
	}
	// virtual package
	rtSrc, err := os.ReadFile(filepath.Join(filepath.Dir(os.Args[0]), "..", "rt", "verifrt.go.txt"))
	if err != nil {
		fatal(err)
	}
	vdir := filepath.Join(out, "verifrt")
	os.MkdirAll(vdir, 0755)
	os.WriteFile(filepath.Join(vdir, "verifrt.go"), rtSrc, 0644)
	schedSrc, err := os.ReadFile(filepath.Join(filepath.Dir(os.Args[0]), "..", "rt", "sched.go.txt"))
	if err != nil {
		fatal(err)
	}
	os.WriteFile(filepath.Join(vdir, "sched.go"), schedSrc, 0644)
	replace[filepath.Join(repo, "pkg/verifrt/sched.go")] = filepath.Join(vdir, "sched.go")
	gen := fmt.Sprintf("package verifrt\n\n// Variant is the overlay variant this binary was built with.\nconst Variant = %q\n\n// Applied lists the source rewrites that were applied.\nvar Applied = %#v\n", variant, applied)
	os.WriteFile(filepath.Join(vdir, "gen.go"), []byte(gen), 0644)
	replace[filepath.Join(repo, "pkg/verifrt/verifrt.go")] = filepath.Join(vdir, "verifrt.go")
	replace[filepath.Join(repo, "pkg/verifrt/gen.go")] = filepath.Join(vdir, "gen.go")
	// files added to existing repository packages (exports of unexported functions), each
	// guarded by the exact signatures it relies on; when a signature is gone a stub that
	// fails closed is written instead, so the build never breaks.
	for _, af := range addedFiles {
		ok := true
		for f, sigs := range af.requires {
			b, err := os.ReadFile(filepath.Join(repo, f))
			if err != nil {
				ok = false
				break
			}
			for _, sig := range sigs {
				if !strings.Contains(string(b), sig) {
					fmt.Fprintf(os.Stderr, "instr: %s: signature %q not found in %s\n", af.name, sig, f)
					ok = false
				}
			}
		}
		src := af.stub
		if ok {
			src = af.src
			applied = append(applied, af.name)
		}
		if src == "" {
			continue // no stub: leave the repository's file in place
		}
		pp := filepath.Join(out, "added", af.path)
		os.MkdirAll(filepath.Dir(pp), 0755)
		os.WriteFile(pp, []byte(src), 0644)
		replace[filepath.Join(repo, af.path)] = pp
	}
	gen = fmt.Sprintf("package verifrt\n\n// Variant is the overlay variant this binary was built with.\nconst Variant = %q\n\n// Applied lists the source rewrites that were applied.\nvar Applied = %#v\n", variant, applied)
	os.WriteFile(filepath.Join(vdir, "gen.go"), []byte(gen), 0644)
	for name, src := range extraFiles[variant] {
		p := filepath.Join(vdir, name)
		os.MkdirAll(filepath.Dir(p), 0755)
		os.WriteFile(p, []byte(src), 0644)
		replace[filepath.Join(repo, "pkg/verifrt", name)] = p
	}
	b, _ := json.MarshalIndent(map[string]any{"Replace": replace}, "", " ")
	if err := os.WriteFile(filepath.Join(out, "overlay.json"), b, 0644); err != nil {
		fatal(err)
	}
	fmt.Printf("instr: variant=%s applied=%v\n", variant, applied)
}

type addedFile struct {
	name     string
	path     string
	requires map[string][]string
	src      string
	stub     string
}

var addedFiles = []addedFile{
	{
		// the repository measures memory by spawning awk on /proc/meminfo for every sorter and block
		// buffer; harnesses create millions of them, so the measurement is replaced by constants
		// (run sizes that matter are always given explicitly by the harnesses)
		name: "fastmem",
		path: "pkg/mem/mem_linux.go",
		requires: map[string][]string{"pkg/mem/mem_linux.go": {
			"func GetTotalMem() (uint64, error) {",
			"func GetAvailMem() (uint64, error) {",
		}},
		src: `package mem

import "github.com/wrgl/wrgl/pkg/verifrt"

// an environment answer owned by the harness (defaults 16 GiB / 8 GiB)
func GetTotalMem() (uint64, error) { return verifrt.MemTotal, nil }

func GetAvailMem() (uint64, error) { return verifrt.MemAvail, nil }
`,
		stub: "",
	},
	{
		name: "export:packfile-header",
		path: "pkg/encoding/packfile/verif_export.go",
		requires: map[string][]string{"pkg/encoding/packfile/packfile.go": {
			"func encodeObjTypeAndLen(buf encoding.Bufferer, objType int, u uint64) []byte",
			"func decodeObjTypeAndLen(r io.Reader) (objType int, u uint64, err error)",
		}},
		src: `//go:build verif || !verif

package packfile

import (
	"io"

	"github.com/wrgl/wrgl/pkg/misc"
)

// VerifEncodeHeader exposes the object header encoder to /verif's harness (overlay only).
func VerifEncodeHeader(objType int, u uint64) []byte {
	return append([]byte{}, encodeObjTypeAndLen(misc.NewBuffer(nil), objType, u)...)
}

// VerifDecodeHeader exposes the object header decoder to /verif's harness (overlay only).
func VerifDecodeHeader(r io.Reader) (int, uint64, error) { return decodeObjTypeAndLen(r) }
`,
		stub: `package packfile

import "io"

func VerifEncodeHeader(objType int, u uint64) []byte {
	panic("mc: infrastructure: packfile header codec signatures changed; export not applied")
}

func VerifDecodeHeader(r io.Reader) (int, uint64, error) {
	panic("mc: infrastructure: packfile header codec signatures changed; export not applied")
}
`,
	},
}

var schedFiles = []string{
	"pkg/ingest/inserter.go", "pkg/sorter/sorter.go", "pkg/diff/diff.go", "pkg/merge/merger.go", "pkg/merge/row_collector.go",
	"pkg/progress/progress.go",
}

// schedRewrite routes the concurrency constructs of one file through the verifrt shims:
// go statements, channel sends / receives / range / close, reflect.Select, WaitGroup and Mutex
// calls, and the iteration over the merger's map (its order is a scheduler-independent source
// of nondeterminism the explorer must own).
func schedRewrite(file, src string) (string, int) {
	lines := strings.Split(src, "\n")
	n := 0
	indentOf := func(l string) string { return l[:len(l)-len(strings.TrimLeft(l, "\t"))] }
	closeAt := func(from int, ind, closer, repl string) bool {
		for j := from + 1; j < len(lines); j++ {
			if lines[j] == ind+closer {
				lines[j] = ind + repl
				return true
			}
			if strings.TrimSpace(lines[j]) != "" && len(indentOf(lines[j])) < len(ind) {
				return false
			}
		}
		return false
	}
	reGoCall := regexp.MustCompile(`^(\t+)go ([A-Za-z_][\w.]*\(.*\))$`)
	reSend := regexp.MustCompile(`^(\t+)([A-Za-z_][\w.]*) <- (.+)$`)
	reRecv2 := regexp.MustCompile(`:= <-([A-Za-z_][\w.]*)`)
	reRange := regexp.MustCompile(`^(\t+)for (\w+) := range (i\.blocks|origChan) \{$`)
	reClose := regexp.MustCompile(`\bclose\(([A-Za-z_][\w.]*)\)`)
	for i := 0; i < len(lines); i++ {
		l := lines[i]
		ind := indentOf(l)
		trim := strings.TrimSpace(l)
		switch {
		case trim == "go func() {":
			if closeAt(i, ind, "}()", "})") {
				lines[i] = ind + "verifrt.Go(func() {"
				n++
			}
		case reGoCall.MatchString(l):
			m := reGoCall.FindStringSubmatch(l)
			lines[i] = m[1] + "verifrt.Go(func() { " + m[2] + " })"
			n++
		case reRange.MatchString(l):
			m := reRange.FindStringSubmatch(l)
			lines[i] = m[1] + "for {\n" + m[1] + "\t" + m[2] + ", verifOK := verifrt.Recv(" + m[3] + ")\n" + m[1] + "\tif !verifOK {\n" + m[1] + "\t\tbreak\n" + m[1] + "\t}"
			n++
		case reSend.MatchString(l) && !strings.Contains(l, ":=") && !strings.HasPrefix(trim, "case "):
			m := reSend.FindStringSubmatch(l)
			if strings.HasSuffix(m[3], "{") {
				if closeAt(i, ind, "}", "})") {
					lines[i] = m[1] + "verifrt.Send(" + m[2] + ", " + m[3]
					n++
				}
			} else {
				lines[i] = m[1] + "verifrt.Send(" + m[2] + ", " + m[3] + ")"
				n++
			}
		}
		l = lines[i]
		if reRecv2.MatchString(l) && !strings.Contains(l, "case ") {
			lines[i] = reRecv2.ReplaceAllString(l, ":= verifrt.Recv($1)")
			n++
		}
		l = lines[i]
		if reClose.MatchString(l) && !strings.Contains(l, "func ") {
			lines[i] = reClose.ReplaceAllString(l, "verifrt.Close($1)")
			n++
		}
	}
	out := strings.Join(lines, "\n")
	for _, r := range [][2]string{
		{"reflect.Select(cases)", "verifrt.ReflectSelect(cases)"},
		{"i.wg.Add(1)", "verifrt.WgAdd(&i.wg, 1)"},
		{"defer i.wg.Done()", "defer verifrt.WgDone(&i.wg)"},
		{"i.wg.Wait()", "verifrt.WgWait(&i.wg)"},
		{"i.mutex.Lock()", "verifrt.Lock(&i.mutex)"},
		{"i.mutex.Unlock()", "verifrt.Unlock(&i.mutex)"},
		{"\t\ti.rowsCount += uint32(blk.RowsCount)", "\t\tverifrt.Access(&i.rowsCount, true, \"Inserter.rowsCount\")\n\t\ti.rowsCount += uint32(blk.RowsCount)"},
		{"\t\ti.asyncBlocks = append(i.asyncBlocks, asyncBlock{", "\t\tverifrt.Access(&i.asyncBlocks, true, \"Inserter.asyncBlocks\")\n\t\ti.asyncBlocks = append(i.asyncBlocks, asyncBlock{"},
		{"\ti.tbl.RowsCount = i.rowsCount", "\tverifrt.Access(&i.rowsCount, false, \"Inserter.rowsCount\")\n\tverifrt.Access(&i.asyncBlocks, false, \"Inserter.asyncBlocks\")\n\ti.tbl.RowsCount = i.rowsCount"},
		{"for _, obj := range merges {", "for _, verifK := range verifrt.MapOrder(\"merger.merges\", merges) {\n\t\tobj := merges[verifK]"},
	} {
		if strings.Contains(out, r[0]) {
			out = strings.ReplaceAll(out, r[0], r[1])
			n++
		}
	}
	// any WaitGroup field named wg, whatever the receiver is called
	reWg := regexp.MustCompile(`\b([A-Za-z_]\w*)\.wg\.(Add|Done|Wait)\(([^)]*)\)`)
	out = reWg.ReplaceAllStringFunc(out, func(m string) string {
		g := reWg.FindStringSubmatch(m)
		n++
		switch g[2] {
		case "Add":
			return "verifrt.WgAdd(&" + g[1] + ".wg, " + g[3] + ")"
		case "Done":
			return "verifrt.WgDone(&" + g[1] + ".wg)"
		}
		return "verifrt.WgWait(&" + g[1] + ".wg)"
	})
	if file == "pkg/progress/progress.go" {
		// the tracker goroutine's select over {done, ticker} and the ticker itself (an environment thread under the scheduler)
		sel := "\t\t\tselect {\n\t\t\tcase <-t.done:\n\t\t\t\treturn\n\t\t\tcase <-t.ticker.C:\n"
		rep := "\t\t\tif verifSel, _, _ := verifrt.ReflectSelect([]reflect.SelectCase{{Dir: reflect.SelectRecv, Chan: reflect.ValueOf(t.done)}, {Dir: reflect.SelectRecv, Chan: reflect.ValueOf(t.ticker.C)}}); verifSel == 0 {\n\t\t\t\treturn\n\t\t\t}\n\t\t\t{\n"
		if strings.Count(out, sel) == 2 && strings.Count(out, "time.NewTicker(t.d)") == 2 {
			out = strings.ReplaceAll(out, sel, rep)
			out = strings.ReplaceAll(out, "time.NewTicker(t.d)", "verifrt.NewTicker(t.d)")
			out = strings.Replace(out, "import (\n", "import (\n\t\"reflect\"\n", 1)
			n++
		} else {
			// fail-closed: the harness that needs these rewrites asks for the marker below and stops with an infrastructure error
			return src, 0
		}
	}
	if n > 0 && !strings.Contains(out, "pkg/verifrt\"") {
		if i := strings.Index(out, "import (\n"); i >= 0 {
			out = out[:i+9] + "\tverifrt \"github.com/wrgl/wrgl/pkg/verifrt\"\n" + out[i+9:]
		}
	}
	return out, n
}

var extraVariants = map[string]func() []rewrite{}
var extraFiles = map[string]map[string]string{}

func fatal(err error) {
	fmt.Fprintln(os.Stderr, "instr:", err)
	os.Exit(2)
}
