package main

import (
	"bytes"
	"fmt"
	"go/ast"
	"go/build"
	"go/importer"
	"go/parser"
	"go/token"
	"go/types"
	"io"
	"os"
	"os/exec"
	"path/filepath"
	"sort"
	"strings"
)

// Typed map-range pass: every `for ... := range m` over a map in the listed packages is rewritten to
// iterate verifrt.MapOrder(site, m) - an order the harness owns (sorted by default). The loops are found
// with go/types on the CURRENT source of the repository, so a change that renames the map, adds another
// loop over it, or introduces a new map keeps every iteration order owned instead of turning the check
// into an infrastructure error or leaving Go's randomised order in the explored executions.
var mapRangePkgs = []string{"pkg/api/utils", "pkg/api/client", "pkg/transaction"}

// legacy site names the harnesses permute by name; every other loop is "auto:<file>:<expr>"
var mapRangeSites = map[string]string{
	"pkg/api/utils/closed_sets_finder.go|f.Wants":           "finder.Wants",
	"pkg/api/utils/closed_sets_finder.go|m":                 "finder.Refs",
	"pkg/api/client/upload_pack_session.go|m":               "fetch.Refs",
	"pkg/api/client/receive_pack_session.go|s.tablesToSend": "push.Tables",
	"pkg/api/client/receive_pack_session.go|remoteRefs":     "push.RemoteRefs",
	"pkg/transaction/transaction.go|m":                      "transaction.Commit",
}

// rewrite names (what harnesses ask for with needRewrite) provided by the pass, per file
var mapRangeProvides = map[string][]string{
	"pkg/api/utils/closed_sets_finder.go":    {"maporder:finder", "maporder:finder-refs"},
	"pkg/api/client/upload_pack_session.go":  {"maporder:fetch-refs"},
	"pkg/api/client/receive_pack_session.go": {"maporder:push-tables"},
	"pkg/transaction/transaction.go":         {"maporder:transaction"},
}

func exportLookup() (func(path string) (io.ReadCloser, error), error) {
	args := []string{"list", "-export", "-deps", "-f", "{{.ImportPath}}\t{{.Export}}"}
	for _, p := range mapRangePkgs {
		args = append(args, "./"+p)
	}
	cmd := exec.Command("go", args...)
	cmd.Dir = repo
	var stderr bytes.Buffer
	cmd.Stderr = &stderr
	outb, err := cmd.Output()
	if err != nil {
		return nil, fmt.Errorf("go list -export: %v: %s", err, stderr.String())
	}
	exp := map[string]string{}
	for _, l := range strings.Split(string(outb), "\n") {
		f := strings.SplitN(l, "\t", 2)
		if len(f) == 2 && f[1] != "" {
			exp[f[0]] = f[1]
		}
	}
	return func(path string) (io.ReadCloser, error) {
		p, ok := exp[path]
		if !ok {
			return nil, fmt.Errorf("no export data for %s", path)
		}
		return os.Open(p)
	}, nil
}

type textEdit struct {
	from, to int
	text     string
}

// mapRangePass returns the rewritten contents per repository-relative file and the rewrite names provided.
func mapRangePass() (map[string]string, []string) {
	contents := map[string]string{}
	var applied []string
	lookup, err := exportLookup()
	if err != nil {
		fmt.Fprintf(os.Stderr, "instr: maprange: %v\n", err)
		return contents, nil
	}
	for _, pkg := range mapRangePkgs {
		dir := filepath.Join(repo, pkg)
		bp, err := build.Default.ImportDir(dir, 0)
		if err != nil {
			fmt.Fprintf(os.Stderr, "instr: maprange: %s: %v\n", pkg, err)
			continue
		}
		fset := token.NewFileSet()
		var files []*ast.File
		srcs := map[string][]byte{}
		bad := false
		for _, name := range bp.GoFiles {
			b, err := os.ReadFile(filepath.Join(dir, name))
			if err != nil {
				bad = true
				break
			}
			f, err := parser.ParseFile(fset, filepath.Join(dir, name), b, parser.ParseComments)
			if err != nil {
				fmt.Fprintf(os.Stderr, "instr: maprange: %v\n", err)
				bad = true
				break
			}
			files = append(files, f)
			srcs[filepath.Join(dir, name)] = b
		}
		if bad {
			continue
		}
		info := &types.Info{Types: map[ast.Expr]types.TypeAndValue{}}
		nerr := 0
		conf := types.Config{
			Importer: importer.ForCompiler(fset, "gc", lookup),
			Error: func(err error) {
				if nerr < 5 {
					fmt.Fprintf(os.Stderr, "instr: maprange: type error: %v\n", err)
				}
				nerr++
			},
		}
		conf.Check("github.com/wrgl/wrgl/"+pkg, fset, files, info)
		if nerr > 0 {
			// the tree does not type-check: the build fails anyway; provide nothing
			continue
		}
		for _, f := range files {
			fname := fset.Position(f.Pos()).Filename
			rel, _ := filepath.Rel(repo, fname)
			src := srcs[fname]
			var edits []textEdit
			seq := 0
			ok := true
			ast.Inspect(f, func(n ast.Node) bool {
				rs, isRange := n.(*ast.RangeStmt)
				if !isRange {
					return true
				}
				tv, has := info.Types[rs.X]
				if !has {
					return true
				}
				if _, isMap := tv.Type.Underlying().(*types.Map); !isMap {
					return true
				}
				if rs.Key == nil {
					return true // `for range m`: the order cannot be observed
				}
				// only side-effect-free range expressions are evaluated more than once
				switch rs.X.(type) {
				case *ast.Ident, *ast.SelectorExpr:
				default:
					fmt.Fprintf(os.Stderr, "instr: maprange: %s: range over %T not owned\n", fset.Position(rs.Pos()), rs.X)
					ok = false
					return true
				}
				off := func(p token.Pos) int { return fset.Position(p).Offset }
				x := string(src[off(rs.X.Pos()):off(rs.X.End())])
				site, named := mapRangeSites[rel+"|"+x]
				if !named {
					site = fmt.Sprintf("auto:%s:%s", filepath.Base(rel), x)
				}
				seq++
				kv := fmt.Sprintf("verifK%d", seq)
				okv := fmt.Sprintf("verifOK%d", seq)
				keyText := string(src[off(rs.Key.Pos()):off(rs.Key.End())])
				valText := "_"
				if rs.Value != nil {
					valText = string(src[off(rs.Value.Pos()):off(rs.Value.End())])
				}
				var b strings.Builder
				fmt.Fprintf(&b, "for _, %s := range verifrt.MapOrder(%q, %s) {\n", kv, site, x)
				// an entry removed during the iteration is not produced (as in Go's own map iteration)
				if valText == "_" {
					fmt.Fprintf(&b, "if _, %s := %s[%s]; !%s {\ncontinue\n}\n", okv, x, kv, okv)
				} else if rs.Tok == token.DEFINE {
					fmt.Fprintf(&b, "%s, %s := %s[%s]\nif !%s {\ncontinue\n}\n_ = %s\n", valText, okv, x, kv, okv, valText)
				} else {
					fmt.Fprintf(&b, "var %s bool\n%s, %s = %s[%s]\nif !%s {\ncontinue\n}\n", okv, valText, okv, x, kv, okv)
				}
				if keyText != "_" {
					if rs.Tok == token.DEFINE {
						fmt.Fprintf(&b, "%s := %s\n_ = %s\n", keyText, kv, keyText)
					} else {
						fmt.Fprintf(&b, "%s = %s\n", keyText, kv)
					}
				}
				edits = append(edits, textEdit{off(rs.For), off(rs.Body.Lbrace) + 1, b.String()})
				return true
			})
			if !ok || len(edits) == 0 {
				if ok {
					// nothing to own in this file: whatever it provides is trivially provided
					applied = append(applied, mapRangeProvides[rel]...)
				}
				continue
			}
			sort.Slice(edits, func(i, j int) bool { return edits[i].from > edits[j].from })
			mod := string(src)
			for _, e := range edits {
				mod = mod[:e.from] + e.text + mod[e.to:]
			}
			if !strings.Contains(mod, "pkg/verifrt\"") {
				i := strings.Index(mod, "import (\n")
				if i < 0 {
					j := strings.Index(mod, "\nimport ")
					if j < 0 {
						// no imports at all: add a block after the package clause
						k := strings.Index(mod, "\npackage ")
						if k < 0 && strings.HasPrefix(mod, "package ") {
							k = -1
						}
						e := strings.Index(mod[k+1:], "\n") + k + 1
						mod = mod[:e+1] + "\nimport (\n\tverifrt \"github.com/wrgl/wrgl/pkg/verifrt\"\n)\n" + mod[e+1:]
					} else {
						mod = mod[:j+1] + "import verifrt \"github.com/wrgl/wrgl/pkg/verifrt\"\n" + mod[j+1:]
					}
				} else {
					mod = mod[:i+9] + "\tverifrt \"github.com/wrgl/wrgl/pkg/verifrt\"\n" + mod[i+9:]
				}
			}
			contents[rel] = mod
			applied = append(applied, mapRangeProvides[rel]...)
			applied = append(applied, fmt.Sprintf("maprange:%s(%d)", rel, len(edits)))
		}
	}
	return contents, applied
}
