package model

import (
	"sort"
	"strings"
)

// Key returns the key of a row: its pk cells in pk order, or the whole row when pk is empty.
func Key(row []string, pk []int) []string {
	if len(pk) == 0 {
		return append([]string{}, row...)
	}
	k := make([]string, len(pk))
	for i, p := range pk {
		k[i] = row[p]
	}
	return k
}

// CmpKey compares two keys component-wise in byte order.
func CmpKey(a, b []string) int {
	for i := range a {
		if i >= len(b) {
			return 1
		}
		if c := strings.Compare(a[i], b[i]); c != 0 {
			return c
		}
	}
	if len(a) < len(b) {
		return -1
	}
	return 0
}

// KeyString is a collision-free rendering of a key (cells may contain any byte).
func KeyString(k []string) string {
	var sb strings.Builder
	for _, c := range k {
		sb.WriteString(lenPrefix(c))
	}
	return sb.String()
}

func lenPrefix(s string) string {
	n := len(s)
	return string([]byte{byte(n >> 24), byte(n >> 16), byte(n >> 8), byte(n)}) + s
}

// RowString is a collision-free rendering of a row.
func RowString(r []string) string { return KeyString(r) }

// DistinctKeys returns the distinct keys of rows in ascending order.
func DistinctKeys(rows [][]string, pk []int) [][]string {
	seen := map[string][]string{}
	for _, r := range rows {
		k := Key(r, pk)
		seen[KeyString(k)] = k
	}
	out := make([][]string, 0, len(seen))
	for _, k := range seen {
		out = append(out, k)
	}
	sort.Slice(out, func(i, j int) bool { return CmpKey(out[i], out[j]) < 0 })
	return out
}

// RemoveCols drops the given column indices from a row.
func RemoveCols(row []string, removed map[int]bool) []string {
	if len(removed) == 0 {
		return row
	}
	out := make([]string, 0, len(row))
	for i, c := range row {
		if !removed[i] {
			out = append(out, c)
		}
	}
	return out
}

// CheckSortedUnique checks that out holds exactly one row per distinct key of in, in strictly
// ascending key order, each out row being (after dropping removed columns) some input row
// with that key. pk indexes the ORIGINAL columns; outPK indexes the columns of out rows.
// It returns "" or a description of the first discrepancy.
func CheckSortedUnique(in [][]string, pk []int, removed map[int]bool, out [][]string, outPK []int) string {
	keys := DistinctKeys(in, pk)
	if len(out) != len(keys) {
		return sprintf("output has %d rows, input has %d distinct keys", len(out), len(keys))
	}
	// candidates per key
	cands := map[string]map[string]bool{}
	for _, r := range in {
		ks := KeyString(Key(r, pk))
		if cands[ks] == nil {
			cands[ks] = map[string]bool{}
		}
		cands[ks][RowString(RemoveCols(r, removed))] = true
	}
	for i, r := range out {
		var k []string
		if len(pk) == 0 && len(removed) == 0 {
			k = Key(r, nil)
		} else {
			k = Key(r, outPK)
		}
		if CmpKey(k, keys[i]) != 0 {
			return sprintf("row %d has key %q, expected %q (ascending distinct keys of the input)", i, k, keys[i])
		}
		if !cands[KeyString(keys[i])][RowString(r)] {
			return sprintf("row %d = %q is not an input row with key %q (columns removed: %v)", i, r, keys[i], removed)
		}
	}
	return ""
}
