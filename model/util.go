package model

import "fmt"

func sprintf(f string, a ...any) string { return fmt.Sprintf(f, a...) }
