// Package model holds the reference oracles: deliberately boring re-statements of what the
// properties promise, independent of the code under test.
package model

// Graph is a commit DAG over nodes 0..n-1 in topological order: every parent of node i is
// smaller than i.
type Graph struct {
	Parents [][]int
}

func (g *Graph) N() int { return len(g.Parents) }

// EnumGraphs calls f with every DAG of exactly n nodes in which node i picks at most
// maxParents parents among 0..i-1 (so several roots and merges occur). choose(k) must
// return every value in [0,k) over repeated enumeration (an mc.Ctx.Choose).
func ChooseGraph(n, maxParents int, choose func(int) int) *Graph {
	g := &Graph{Parents: make([][]int, n)}
	for i := 0; i < n; i++ {
		opts := parentSets(i, maxParents)
		g.Parents[i] = opts[choose(len(opts))]
	}
	return g
}

// SwapMergeParents returns the graph with the parent list of every merge commit reversed: the same
// history, but first-parent chains and walk orders differ.
func (g *Graph) SwapMergeParents() *Graph {
	out := &Graph{Parents: make([][]int, len(g.Parents))}
	for i, ps := range g.Parents {
		q := append([]int{}, ps...)
		for a, b := 0, len(q)-1; a < b; a, b = a+1, b-1 {
			q[a], q[b] = q[b], q[a]
		}
		out.Parents[i] = q
	}
	return out
}

var parentSetCache = map[[2]int][][]int{}

func parentSets(i, maxParents int) [][]int {
	k := [2]int{i, maxParents}
	if v, ok := parentSetCache[k]; ok {
		return v
	}
	out := [][]int{{}}
	// single parents, nearest first
	for a := i - 1; a >= 0; a-- {
		out = append(out, []int{a})
	}
	if maxParents >= 2 {
		for a := i - 1; a >= 0; a-- {
			for b := a - 1; b >= 0; b-- {
				out = append(out, []int{a, b})
			}
		}
	}
	if maxParents >= 3 {
		for a := i - 1; a >= 0; a-- {
			for b := a - 1; b >= 0; b-- {
				for c := b - 1; c >= 0; c-- {
					out = append(out, []int{a, b, c})
				}
			}
		}
	}
	parentSetCache[k] = out
	return out
}

// Anc returns anc[i] = set (bitmask) of ancestors-or-self of node i.
func (g *Graph) Anc() []uint64 {
	anc := make([]uint64, g.N())
	for i := range g.Parents {
		anc[i] = 1 << uint(i)
		for _, p := range g.Parents[i] {
			anc[i] |= anc[p]
		}
	}
	return anc
}

// Desc returns desc[i] = bitmask of descendants-or-self.
func (g *Graph) Desc() []uint64 {
	anc := g.Anc()
	d := make([]uint64, g.N())
	for i := range anc {
		for j := 0; j < g.N(); j++ {
			if anc[i]&(1<<uint(j)) != 0 {
				d[j] |= 1 << uint(i)
			}
		}
	}
	return d
}

// Bits lists the set bits of m.
func Bits(m uint64) []int {
	var out []int
	for i := 0; m != 0; i++ {
		if m&1 != 0 {
			out = append(out, i)
		}
		m >>= 1
	}
	return out
}

// Perms returns all permutations of 0..n-1 in lexicographic order.
func Perms(n int) [][]int {
	var out [][]int
	p := make([]int, n)
	used := make([]bool, n)
	var rec func(k int)
	rec = func(k int) {
		if k == n {
			out = append(out, append([]int{}, p...))
			return
		}
		for v := 0; v < n; v++ {
			if !used[v] {
				used[v] = true
				p[k] = v
				rec(k + 1)
				used[v] = false
			}
		}
	}
	rec(0)
	return out
}
