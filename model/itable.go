package model

import (
	"bytes"
	"encoding/binary"
	"fmt"

	"github.com/klauspost/compress/s2"
	"github.com/pckhoi/meow"
	"github.com/wrgl/wrgl/pkg/objects"
)

// EncodeStrList is an independent re-statement of the string-list encoding: 32-bit count,
// then per string a 16-bit length and the bytes.
func EncodeStrList(sl []string) []byte {
	var b bytes.Buffer
	var u4 [4]byte
	binary.BigEndian.PutUint32(u4[:], uint32(len(sl)))
	b.Write(u4[:])
	for _, s := range sl {
		var u2 [2]byte
		binary.BigEndian.PutUint16(u2[:], uint16(len(s)))
		b.Write(u2[:])
		b.WriteString(s)
	}
	return b.Bytes()
}

// EncodeBlock is the independent block encoding: 32-bit row count then the rows.
func EncodeBlock(rows [][]string) []byte {
	var b bytes.Buffer
	var u4 [4]byte
	binary.BigEndian.PutUint32(u4[:], uint32(len(rows)))
	b.Write(u4[:])
	for _, r := range rows {
		b.Write(EncodeStrList(r))
	}
	return b.Bytes()
}

func Hash(b []byte) []byte {
	s := meow.Checksum(0, b)
	return s[:]
}

// KV is the read-only view of an object store the oracle needs.
type KV interface {
	Get([]byte) ([]byte, error)
	Exist([]byte) bool
}

// TableRows reads every row of a stored table through the repository's block reader.
func TableRows(db objects.Store, tbl *objects.Table) ([][]string, error) {
	var rows [][]string
	var bb []byte
	for i, sum := range tbl.Blocks {
		blk, b2, err := objects.GetBlock(db, bb, sum)
		if err != nil {
			return nil, fmt.Errorf("block %d (%x): %v", i, sum, err)
		}
		bb = b2
		rows = append(rows, blk...)
	}
	return rows, nil
}

// CheckTable is I-TABLE: the structural statement of C03 for the table stored under sum,
// with block size B. wantProfile: the producer promises a table profile.
func CheckTable(db objects.Store, sum []byte, B int, wantProfile bool) string {
	tbl, err := objects.GetTable(db, sum)
	if err != nil {
		return fmt.Sprintf("table %x cannot be read: %v", sum, err)
	}
	raw, _ := db.Get(append([]byte("tbl/"), sum...))
	if !bytes.Equal(Hash(raw), sum) {
		return fmt.Sprintf("table is stored under %x but its bytes hash to %x", sum, Hash(raw))
	}
	pk := make([]int, len(tbl.PK))
	for i, p := range tbl.PK {
		pk[i] = int(p)
		if pk[i] >= len(tbl.Columns) {
			return fmt.Sprintf("pk index %d out of range for %d columns", pk[i], len(tbl.Columns))
		}
	}
	nb := len(tbl.Blocks)
	want := (int(tbl.RowsCount) + B - 1) / B
	if nb != want {
		return fmt.Sprintf("table records %d rows but lists %d blocks (block size %d)", tbl.RowsCount, nb, B)
	}
	if len(tbl.BlockIndices) != nb {
		return fmt.Sprintf("%d blocks but %d block indices", nb, len(tbl.BlockIndices))
	}
	total := 0
	var prevKey []string
	firstKeys := make([][]string, nb)
	for i, bsum := range tbl.Blocks {
		comp, err := db.Get(append([]byte("blk/"), bsum...))
		if err != nil {
			return fmt.Sprintf("block %d (%x) missing: %v", i, bsum, err)
		}
		content, err := s2.Decode(nil, comp)
		if err != nil {
			return fmt.Sprintf("block %d does not decompress: %v", i, err)
		}
		if !bytes.Equal(Hash(content), bsum) {
			return fmt.Sprintf("block %d stored under %x but its content hashes to %x", i, bsum, Hash(content))
		}
		rows, _, err := objects.GetBlock(db, nil, bsum)
		if err != nil {
			return fmt.Sprintf("block %d does not decode: %v", i, err)
		}
		if !bytes.Equal(EncodeBlock(rows), content) {
			return fmt.Sprintf("block %d: re-encoding the decoded rows does not reproduce the stored bytes", i)
		}
		if i < nb-1 && len(rows) != B {
			return fmt.Sprintf("block %d of %d has %d rows, every block but the last must have %d", i, nb, len(rows), B)
		}
		if len(rows) < 1 || len(rows) > B {
			return fmt.Sprintf("block %d has %d rows (allowed 1..%d)", i, len(rows), B)
		}
		total += len(rows)
		// block index
		icomp, err := db.Get(append([]byte("blkidx/"), tbl.BlockIndices[i]...))
		if err != nil {
			return fmt.Sprintf("block index %d (%x) missing: %v", i, tbl.BlockIndices[i], err)
		}
		icontent, err := s2.Decode(nil, icomp)
		if err != nil {
			return fmt.Sprintf("block index %d does not decompress: %v", i, err)
		}
		if !bytes.Equal(Hash(icontent), tbl.BlockIndices[i]) {
			return fmt.Sprintf("block index %d stored under %x but hashes to %x", i, tbl.BlockIndices[i], Hash(icontent))
		}
		n := len(rows)
		if len(icontent) != 1+n+32*n || int(icontent[0]) != n {
			return fmt.Sprintf("block index %d has %d bytes / count %d for a block of %d rows", i, len(icontent), icontent[0], n)
		}
		sortedOff := icontent[1 : 1+n]
		entries := icontent[1+n:]
		seenOff := map[byte]bool{}
		for j, o := range sortedOff {
			if int(o) >= n || seenOff[o] {
				return fmt.Sprintf("block index %d: sorted offsets are not a permutation (%v)", i, sortedOff)
			}
			seenOff[o] = true
			if j > 0 {
				a := entries[32*int(sortedOff[j-1]) : 32*int(sortedOff[j-1])+16]
				b := entries[32*int(o) : 32*int(o)+16]
				if bytes.Compare(a, b) > 0 {
					return fmt.Sprintf("block index %d: offsets do not sort the key hashes", i)
				}
			}
		}
		idx, _, err := objects.GetBlockIndex(db, nil, tbl.BlockIndices[i])
		if err != nil {
			return fmt.Sprintf("block index %d does not decode: %v", i, err)
		}
		for j, r := range rows {
			if len(r) != len(tbl.Columns) {
				return fmt.Sprintf("block %d row %d has %d cells, table has %d columns", i, j, len(r), len(tbl.Columns))
			}
			k := Key(r, pk)
			if prevKey != nil && CmpKey(prevKey, k) >= 0 {
				return fmt.Sprintf("keys not strictly increasing: %q then %q (block %d row %d)", prevKey, k, i, j)
			}
			prevKey = k
			rowHash := Hash(EncodeStrList(r))
			keyHash := rowHash
			if len(pk) > 0 {
				keyHash = Hash(EncodeStrList(k))
			}
			e := entries[32*j : 32*j+32]
			if !bytes.Equal(e[:16], keyHash) || !bytes.Equal(e[16:], rowHash) {
				return fmt.Sprintf("block index %d entry %d is not hash(key)||hash(row) of row %q", i, j, r)
			}
			off, rh := idx.Get(keyHash)
			if rh == nil || int(off) != j || !bytes.Equal(rh, rowHash) {
				return fmt.Sprintf("block index %d: lookup of the key of row %d (%q) returns position %d / %x", i, j, r, off, rh)
			}
		}
		// a hash that belongs to no row must not be found
		if _, rh := idx.Get(bytes.Repeat([]byte{0x5a}, 16)); rh != nil {
			return fmt.Sprintf("block index %d: lookup of a foreign hash returns a row", i)
		}
		firstKeys[i] = Key(rows[0], pk)
	}
	if total != int(tbl.RowsCount) {
		return fmt.Sprintf("table records %d rows but its blocks hold %d", tbl.RowsCount, total)
	}
	tidx, err := objects.GetTableIndex(db, sum)
	if err != nil {
		return fmt.Sprintf("table index missing or unreadable: %v", err)
	}
	if len(tidx) != nb {
		return fmt.Sprintf("table index has %d entries for %d blocks", len(tidx), nb)
	}
	for i := range tidx {
		if CmpKey(tidx[i], firstKeys[i]) != 0 || len(tidx[i]) != len(firstKeys[i]) {
			return fmt.Sprintf("table index entry %d is %q but block %d starts with key %q", i, tidx[i], i, firstKeys[i])
		}
	}
	if wantProfile {
		if _, err := objects.GetTableProfile(db, sum); err != nil {
			return fmt.Sprintf("table profile missing or unreadable: %v", err)
		}
	}
	return ""
}
