package model

import (
	"fmt"
	"strings"

	"github.com/wrgl/wrgl/pkg/objects"
)

// KeyLister is an object store whose keys can be listed.
type KeyLister interface {
	objects.Store
	Keys() []string
}

// CheckRepoObjects is the object half of I-REPO: every stored commit decodes and has all its
// parents; every table whose tbl/ key exists is fully usable (blocks, block indices, table
// index present and consistent: I-TABLE without the profile clause).
func CheckRepoObjects(db KeyLister, B int) string {
	for _, k := range db.Keys() {
		switch {
		case strings.HasPrefix(k, "com/"):
			sum := []byte(k[4:])
			c, err := objects.GetCommit(db, sum)
			if err != nil {
				return fmt.Sprintf("stored commit %x does not decode: %v", sum, err)
			}
			for _, p := range c.Parents {
				if !objects.CommitExist(db, p) {
					return fmt.Sprintf("stored commit %x lacks its parent %x", sum, p)
				}
			}
		case strings.HasPrefix(k, "tbl/"):
			sum := []byte(k[4:])
			if msg := CheckTable(db, sum, B, false); msg != "" {
				return fmt.Sprintf("table %x is reported present but is not usable: %s", sum, msg)
			}
		}
	}
	return ""
}

// RefLister lists all refs.
type RefLister interface {
	Filter(prefixes, notPrefixes []string) (map[string][]byte, error)
}

// CheckRepoRefs: every ref resolves to a stored, decodable commit.
func CheckRepoRefs(db objects.Store, rs RefLister) string {
	m, err := rs.Filter(nil, nil)
	if err != nil {
		return "listing refs failed: " + err.Error()
	}
	for name, sum := range m {
		if _, err := objects.GetCommit(db, sum); err != nil {
			return fmt.Sprintf("ref %s points to %x which is not a readable commit: %v", name, sum, err)
		}
	}
	return ""
}

// CheckRepoStore is I-REPO over any objects.Store / ref store pair (used on reopened on-disk
// repositories): every ref resolves to a readable commit; every stored commit decodes and has
// its parents; every table whose object exists is fully usable; every branch points at a
// commit whose table exists.
func CheckRepoStore(db objects.Store, rs RefLister, B int) string {
	if msg := CheckRepoRefs(db, rs); msg != "" {
		return msg
	}
	coms, err := objects.GetAllCommitKeys(db)
	if err != nil {
		return "listing commits failed: " + err.Error()
	}
	for _, sum := range coms {
		c, err := objects.GetCommit(db, sum)
		if err != nil {
			return fmt.Sprintf("stored commit %x does not decode: %v", sum, err)
		}
		for _, p := range c.Parents {
			if !objects.CommitExist(db, p) {
				return fmt.Sprintf("stored commit %x lacks its parent %x", sum, p)
			}
		}
	}
	tbls, err := objects.GetAllTableKeys(db)
	if err != nil {
		return "listing tables failed: " + err.Error()
	}
	for _, sum := range tbls {
		if msg := CheckTable(db, sum, B, false); msg != "" {
			return fmt.Sprintf("table %x is reported present but is not usable: %s", sum, msg)
		}
	}
	m, err := rs.Filter([]string{"heads/"}, nil)
	if err != nil {
		return err.Error()
	}
	for name, sum := range m {
		c, err := objects.GetCommit(db, sum)
		if err != nil {
			return fmt.Sprintf("branch %s unreadable: %v", name, err)
		}
		if !objects.TableExist(db, c.Table) {
			return fmt.Sprintf("branch %s points at commit %x whose table %x is missing", name, sum, c.Table)
		}
	}
	return ""
}
