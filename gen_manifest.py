#!/usr/bin/env python3
"""Regenerates MANIFEST.json from the table below (kept in one place so it stays valid)."""
import json, sys

BASE = "for m in $(cat /w/out/gomods.txt); do MF=$(cd /repo/$m && . /w/out/goenv.sh && gomodflag); (cd /repo/$m && go test $MF -json -vet=off -count=1 -timeout 25m ./...); done"

# id -> (level, technique, text, note, design_ref)
CHECKS = {
 "C20": ("model_checking",
         "explicit-state BFS over operation sequences on the real HashSet vs a map model",
         "Every sequence of Add/Flush/reopen up to the stated depth over a 10-hash universe and batch sizes 1,2,3,1024 is executed on the real index.HashSet; states are deduplicated by raw file bytes + pending batch; membership, sortedness and fan-out are compared with a Go map after every step. Exhaustive within the depth bound, which is the right level for a small stateful structure whose bugs are order- and collision-dependent.",
         "Trusted: the map model and the raw-file parser (60 lines); the memfile's os.File semantics (cross-checked by a real-file harness). Hashes outside the universe assumed to behave like universe hashes with the same ordering relations; bulk insertions are covered by a second family whose operations are whole runs of 256..600 hashes.",
         "DESIGN.md §4 C20"),
 "C15": ("model_checking",
         "explicit-state BFS over mutator sequences on the real SQL ref store and the real file ref store vs a map+log model",
         "Every sequence of ref-store mutators up to the stated depth over names with '_', '%', case variants, nested paths and mutual prefixes is executed on the real SQL store (in-memory SQLite, repository schema); states are deduplicated by the dump of all refs and reflog rows; after every transition every observer (Get, log drain, Filter/FilterKey over all prefix/not-prefix pairs, list helpers) is compared with a plain map and per-name log slices. Further searches start from refs that already carry logs of 17/9 and 129/65 entries. The file store (pkg/ref/fs) is searched the same way on a private directory (state = every file under refs/ and logs/), for the operations it implements.",
         "Trusted: the 150-line map model; SQLite and the file system themselves. Log metadata other than old/new values is not compared. File store: Filter/FilterKey only for one prefix ending at a path separator and no exclusion; names where one ref would be a directory of another are not used.",
         "DESIGN.md §4 C15"),
 "C11": ("exploration",
         "bounded-exhaustive enumeration of all small commit DAGs x timestamp vectors against bitmask reachability",
         "All DAGs up to 4 (quick) / 5 (thorough) commits with <=2 parents, under every permutation of distinct timestamps plus equal and pairwise-equal times, are stored as real commits; IsAncestorOf on all pairs, the history walk from every node and SeekCommonAncestor on every ordered 2..4-tuple are compared with reachability computed on bitmasks. The functions only look at graph shape and time order, so this small scope drives every branch.",
         "Trusted: 40 lines of bitmask reachability; the in-memory object store. Graphs beyond 5 nodes are not enumerated.",
         "DESIGN.md §4 C11"),
 "C08": ("exploration",
         "bounded-exhaustive enumeration of small commit DAGs x negotiation inputs against bitmask reachability, deviation-bounded secondary dimensions",
         "All DAGs up to 4 (thorough 5) commits x ref tips x wants x haves x depth are enumerated completely and run through the real ClosedSetsFinder (one or two Process rounds); time order, unknown haves, have order, round split, done flag, a missing table and the iteration order of the want set (owned through a build-time overlay of the map range) are explored as bounded deviations from defaults. Closure, parent-first order, no unreachable commit, depth-limited tables, refusal of unreachable wants and a polynomial read count (ladders up to 20 diamonds) are checked on every case; linear histories of 1023..2100 commits (wants anywhere on the chain, one or two rounds) are judged by an index oracle.",
         "Trusted: bitmask reachability / BFS distance model; the in-memory object store and map-backed ref store (the finder only lists refs). Histories beyond 5 commits only as ladders and linear chains.",
         "DESIGN.md §4 C08"),
 "C19": ("exploration",
         "bounded-exhaustive enumeration of row sequences x key x spill pattern x removed columns against sort+dedupe",
         "Every sequence of up to 4 (thorough 5) rows over a 3-column alphabet, every key choice incl. composite/reordered/none, three spill patterns and every removable column set is fed to two real sorters; SortedBlocks and SortedRows are compared with sort+dedupe, with each other, and the temp directory is listed after Close. A second family runs under a build-time overlay that scales the block size to 3 so duplicates and spills straddle block boundaries. The sorter's logic depends on order relations between a few rows and chunk heads, which this scope exhausts.",
         "Trusted: 60-line sort+dedupe model; the overlay only replaces the literal 255 by 3 in sorter.go/block.go/table.go (fail-closed if the text changes). Long cells and many-chunk merges beyond 8 rows are not covered.",
         "DESIGN.md §4 C19"),
 "C01": ("exploration",
         "bounded-exhaustive enumeration of CSV tables x key x configuration through the real ingest, read back and compared with the CSV",
         "Every small table (1..3 columns, 3-value cells, up to 4 rows, every ordered key subset), hostile cell contents at every position, cells at and around the 65535-byte limit, rows crossing 64 KiB, and 254..766-row tables with duplicates on chunk and block boundaries are ingested by the real ingest.IngestTable (and `wrgl commit`/`wrgl export` on disk) under run sizes that force 0..n spills, 1..3 workers and 4 delimiters; the stored table is read back and compared with what encoding/csv parses from the same text.",
         "Trusted: encoding/csv as the definition of the CSV's rows; the sort+dedupe model; in-memory object store. Cell lengths away from the 16-bit boundary and files that do not fit in memory are not covered.",
         "DESIGN.md §4 C01"),
 "C02": ("exploration",
         "bounded-exhaustive enumeration of logical tables: all permutations/configurations must agree, all neighbours and all family members must differ (cross-worker injectivity merge)",
         "For every logical table of the small family all row permutations x run sizes x worker counts x delimiters are ingested into fresh stores and must yield one identifier; every one-cell, column-name, column-order and key variant must yield a different one; the map identifier -> logical table over the whole enumerated family is merged across workers and must be injective. Multi-block tables and the CLI's unchanged-file detection are covered by separate families.",
         "Trusted: canonical-table rendering; 64-bit hash of the canonical form in the injectivity merge (a collision can only hide, never raise, an alarm).",
         "DESIGN.md §4 C02"),
 "C03": ("exploration",
         "bounded-exhaustive enumeration of tables per producer, each checked by an independent structural oracle and by the repository's doctor",
         "All 1024 key subsets of a 10-key universe under a build-time overlay that scales the block size to 3 (0..4 blocks), the block-boundary sizes at the real block size, and doctor-resolved twins of corrupted tables are produced by the real code and checked clause by clause (row count, full blocks, key order, hashes and block-index entries recomputed by an independent encoder, table index, profile) and by doctor.Diagnose. Merge results and received tables go through the same oracle in C05/C07.",
         "Trusted: the 150-line structural oracle with its independent string-list/block encoder; meow hash and s2 libraries; the overlay that replaces the literal block size (fail-closed).",
         "DESIGN.md §4 C03"),
 "C06": ("exploration",
         "bounded-exhaustive enumeration of object field values at the format's boundaries; exhaustive enumeration of packfile header lengths",
         "Commits, tables, blocks, block indices (built both ways), table profiles (every subset of optional fields), string and uint lists are written by the real encoders over field values at the format's boundaries (empty, newline, non-UTF8, 65535/65536/70000 bytes, rows crossing 64 KiB, 0..3 parents, 7 instants x 5 zones), read back, compared, re-encoded byte-for-byte, saved (key = hash of bytes, idempotent) and fetched; over-limit text must be refused with an error. The packfile header codec is run on every length up to 2^26 (quick) / every 32-bit length (thorough) and on 2^k windows up to 2^63 for all three object types.",
         "Trusted: independent string-list/block encoder; meow hash. The header codec is reached through an overlay-added export file (fail-closed stub when its signatures change). Field lengths away from the 16-bit boundary are not enumerated.",
         "DESIGN.md §4 C06"),
 "C18": ("exploration",
         "exhaustive enumeration of read-chunking patterns (all 0/1/2-cut partitions, uniform chunks, data+EOF) over a corpus of valid streams",
         "For each valid encoded stream of the seed corpus and each reader entry point, every partition of the stream into successive reads with up to 2 cut points (3 for short streams in thorough), uniform 1..8-byte chunks, and both EOF delivery modes is replayed through the real decoder; decoded objects, byte counts and the end-of-stream condition must equal the whole-buffer result. The chunking of a stream is the only nondeterminism a reader sees, and a short read at any single offset is enough to expose a missing read loop.",
         "Trusted: the chunking reader (40 lines). Zero-byte non-EOF reads are not generated. Streams are the corpus encodings, not all valid streams.",
         "DESIGN.md §4 C18"),
 "C17": ("exploration",
         "complete enumeration of the edit-distance-1 neighbourhood of a corpus of valid encodings plus all very short byte strings, per decoder entry point",
         "For every valid encoding of the seed corpus (incl. s2-compressed objects and a real sender packfile) every truncation, every listed byte replacement, every 2/4-byte big-endian overwrite with boundary values, every one-byte insertion/deletion is generated - the complete neighbourhood, not a sample - and fed to every decoder entry point and to ObjectReceiver.Receive (empty and pre-populated store); plus all byte strings of length <= 2 and all 3..4-byte strings over a 7-byte alphabet. Each call must return without panic, within a read-count bound and a heap-allocation bound measured from the runtime's allocation counter; after a rejected packfile nothing of the rejected object may remain. Workers run under ulimit -v so runaway allocations are captured as replayable crashes.",
         "Trusted: the mutation enumerator; runtime/metrics allocation counter (single-goroutine workers). Inputs further than one edit from a valid encoding are covered only up to length 4. One known finding: the s2 codec allocates its declared decoded length (see known_findings.json).",
         "DESIGN.md §4 C17"),
 "C04": ("exploration",
         "exhaustive enumeration of all ordered table pairs over a small key universe (scaled block size) and over block-edge key segments (real block size) against a set model",
         "All 16384 ordered pairs of key subsets of a 7-key universe under the block size scaled to 3 (so every pair spans 0..3 blocks: empty, disjoint, interleaved, nested, identical ranges), with every listed modification pattern and key layout incl. composite keys that tie across block boundaries, and all ordered pairs of unions of key segments sized to put keys on real 255-row block edges, are ingested and diffed by the real code; the events are compared with the set model and every offset is resolved back to its row. The block-window search only looks at first keys of blocks, so this scope drives every branch of it.",
         "Trusted: the set model and hash recomputation (60 lines); the blocksize overlay (fail-closed). Pairs with different column lists are not judged.",
         "DESIGN.md §4 C04"),
 "C12": ("exploration",
         "bounded-exhaustive enumeration of repository histories (DAG x tables sharing blocks x refs of every kind x ref deletion x shallow commits) against a reachability model, with repeated prune",
         "Every commit DAG up to 3 (thorough 4) nodes, every assignment of tables from a pool that shares blocks, up to 2 refs on any node, every choice of a ref to delete between prunes, and bounded deviations over ref kind, absent tables (shallow commits) and partially present tables are built in an in-memory store and pruned three times by the real prune.Prune; after each prune the store is compared key by key with what reachability from the refs on the pre-prune snapshot dictates (kept byte-identical and structurally sound; unreachable commits, their exclusive tables and blocks gone; idempotent). wrgl prune / wrgl gc are run on disk for branch-delete and reset scenarios.",
         "Trusted: the reachability model (60 lines); map-backed ref store. For a shallow commit (table object absent) nothing is demanded of stray blocks of that table, because nothing identifies them.",
         "DESIGN.md §4 C12"),
 "C07": ("exploration",
         "bounded-exhaustive enumeration of transfers (commit fragment x table assignment x destination contents x common set x packfile size) through the real sender, packfile codec and receiver; all permutations of a transfer's objects",
         "Every fragment of 1..3 commits with tables from a pool that shares blocks, every ancestor-closed set of commits and every set of tables already at the destination, every admissible common set, and bounded deviations over the packfile size limit (down to 1 byte, so every object gets its own packfile), stray blocks and depth-limited table sets are sent by the real ObjectSender and received by the real ObjectReceiver; the two stores are compared object by object, received tables pass the structural oracle and diff empty against the originals, and the order of arrival is checked. All permutations of the objects of a small transfer are fed to fresh receivers to show that nothing is accepted while a prerequisite is missing.",
         "Trusted: store comparison and the order checker (100 lines); in-memory stores. The sender's precondition (common commits are full at the destination) is assumed here and exercised end-to-end in C09.",
         "DESIGN.md §4 C07"),
 "C05": ("exploration",
         "bounded-exhaustive enumeration of (base, branches) tuples through the real Merger against a cell model and algebraic laws, deviation-bounded edits",
         "Every base subset of 3 keys, with per-key edits per branch, column operations, key position, keyless tables and untouched filler rows explored up to a stated number of deviations from 'no edit', is ingested and merged by the real Merger following the CLI's flow (both the row output and the committed block output). Oracles: an exact cell model (conflict set and result rows) for tuples that keep the column set; the laws merge(base;X,base)=X, merge(base;X,X)=X and order independence by column name; untouched rows unchanged under their own column names; the committed result passes the structural oracle. Failures are classified by input shape; the shapes key-not-first, column-op and keyless fail on this tree and are recorded as known findings (the repository's own test pins the behaviour), the plain shape must be clean.",
         "Trusted: the cell model (90 lines) written from the repository's conventions; in-memory store with a write overlay. 3 keys, 2 value columns, one column operation per branch, N <= 3. Goroutine scheduling inside the merger is free here (decided in C16).",
         "DESIGN.md §4 C05"),
 "C14": ("fault_enumeration",
         "exhaustive enumeration of fault and crash positions over every store write of commit/discard sequences, with re-run, on the real stores",
         "For transactions staging 1..3 new or existing branches, every sequence of up to 2 (thorough 3) commit/discard operations is run with no fault, with an injected error at store write #k and with a simulated process death before store write #k for every k, then commit is re-run; the branch iteration order inside Commit is an explored choice (build-time overlay of the map range). The real transaction package runs on the real SQL ref store and an object store behind wrappers that number all mutating calls in one sequence. All-or-nothing is a statement about every failure point of the per-branch loop, which is exactly what is enumerated.",
         "Trusted: the fault wrappers (atomic store calls; a crash is death between two calls); the invariant checker (duplicates, committed => all moved, logs, refusal of double commit / discard-after-commit). After a (possibly partial) discard the staged set is allowed to have shrunk.",
         "DESIGN.md §4 C14"),
 "C09": ("exploration",
         "bounded-exhaustive enumeration of (server, client) repository pairs over a common universe, driving the real client sessions over loopback HTTP against a reference server built from the repository's own components",
         "Every commit DAG up to 3 (thorough 4) nodes, every pair of ancestor-closed sets held by server and client (so ahead / behind / diverged / unrelated / equal all arise), every depth 0..2, and bounded deviations over table sharing, ref placement, shallow state, haves per round trip (1 forces one round trip per commit), server-side table negotiation and packfile size (1 byte forces one packfile per object) are run through the real UploadPackSession / ReceivePackSession against refsrv. After each exchange the receiving store is checked for full history, tables within depth passing the structural oracle, byte-identical objects, and a repeated exchange that transfers nothing.",
         "Trusted: refsrv (300 lines of HTTP glue around ClosedSetsFinder, ObjectSender, ObjectReceiver; no policy of its own) - the server half is not part of the repository; map-backed ref stores. One known finding (push to a shallow remote).",
         "DESIGN.md §4 C09"),
 "C10": ("exploration",
         "exhaustive enumeration of (history relation x ref kind x force mode x operation) through the real command tree against a ref-transition model",
         "Every combination of history relation between a ref's old and offered value (new, equal, ahead, far ahead, ahead through a shortcut merge, behind, diverged, unrelated), ref kind (remote-tracking, head, tag, custom), force mode (none, '+', --force) and operation (wrgl fetch, wrgl push; wrgl merge / wrgl pull with default, --no-ff, --ff-only), with a second always-legal ref in the same operation and (thorough) three commit-time orders, is executed on an on-disk repository against the reference server. The resulting ref values, reported rejections and newest reflog entries are compared with the transition model. The rule is a safety condition over history shapes; the shapes are enumerated rather than sampled.",
         "Trusted: refsrv for the remote side; the 6-commit universe realising the relations; the transition model (40 lines).",
         "DESIGN.md §4 C10"),
 "C13": ("fault_enumeration",
         "exhaustive enumeration of crash points: every prefix of an operation's store-write sequence (recording stores), every injected write error, and real subprocess kills at every write of the on-disk stores",
         "Library tier: one uninterrupted run of each operation (commit, receive + ref update, prune, 3-way merge commit; 13 operation instances) on recording stores yields the durable state after every store write; each such state - and each state left by an injected write error - is checked for repository consistency, then the operation is re-run on it and must end where an uninterrupted run ends. CLI tier: the real wrgl command path (commit, merge ff / no-ff / 3-way, pull from the reference server, prune) runs as a subprocess built with a crash hook in the Badger and SQLite store write paths and is killed at the k-th write for every k; the repository is reopened, checked, the command re-run and the result compared with an uninterrupted run.",
         "Trusted: each store write is atomic (Badger Update / one SQL statement or transaction), so 'died between two writes' is the crash model; torn writes and fsync reordering inside Badger/SQLite are not modelled. The crash hook is applied by build-time overlay (fail-closed).",
         "DESIGN.md §4 C13"),
 "C16": ("model_checking",
         "stateless model checking of the real goroutine pipelines under a controlled cooperative scheduler: DFS over scheduler decisions with preemption / delay bounding, vector-clock race detection",
         "A build-time overlay routes every go statement, channel send / receive / range / close, reflect.Select, WaitGroup, Mutex lock and unlock operation of the ingest worker pool, sorter producer, differ, merger, row collector and the progress trackers (whose ticker becomes an environment thread ticking at moments the explorer chooses) through a scheduler that runs one goroutine at a time and keeps channel contents itself; the explorer enumerates every schedule within the stated preemption (or, for the five-thread merger, delay) bound, including which ready select case fires and the iteration order of the merger's map. Each complete schedule must terminate, avoid send-on-closed / double close / deadlock, be free of happens-before races on the inserter's shared fields, return the single-worker result and surface injected store errors (single and persistent read faults in the merger). The progress bars that commit and merge drive (pkg/pbar) are checked by enumerating every short use of a bar under a build-time hang check. Every explored schedule is an execution of the repository's code. Unsynchronised accesses that a cooperative scheduler cannot see are covered by a separate cross-check: the same harness bodies run free (no scheduler) in a binary compiled with the Go race detector, several repetitions per configuration - that harness is a detector pass, not an enumeration of schedules, and is labelled as such in the evidence.",
         "Trusted: the scheduler shim (450 lines) and the textual rewrite rules (fail-closed when a construct is not matched, and the overlaid build must compile). Sequential consistency at the granularity of rewritten operations; <= 3 workers, <= 3 blocks; Badger / progress-bar goroutines are outside the scheduler.",
         "DESIGN.md §4 C16"),
}

NOT_YET = {}

def main():
    props = [json.loads(l) for l in open("properties.jsonl")]
    checks = []
    na = []
    for p in props:
        pid = p["id"]
        if pid in CHECKS:
            level, tech, text, note, ref = CHECKS[pid]
            checks.append({
                "property_id": pid,
                "quick_cmd": f"./run.sh {pid} quick",
                "thorough_cmd": f"./run.sh {pid} thorough",
                "evidence_file": f"/verif/evidence/{pid}.json",
                "replay_cmd_template": "./run.sh replay {path}",
                "engine": "vcheck",
                "level_claimed": {"category": level, "text": text, "design_ref": ref},
                "level_note": note,
                "technique": tech,
            })
        else:
            na.append({"property_id": pid, "reason": NOT_YET.get(pid, "check not built yet in this session (planned: bounded exhaustive exploration per DESIGN.md section 4); not claimed until it runs clean and catches its mutants")})
    m = {
        "version": 1,
        "setup_cmd": "./run.sh setup",
        "hooks": {
            "guard": "verif",
            "enable": "none needed in /repo: instrumentation (scaled block size, map-order ownership, cooperative scheduler shim, crash hook VERIF_CRASH_AT in the Badger / SQLite store write paths, export of the packfile header codec) is applied at build time with `go build -overlay` generated by /verif/cmd/instr from /repo's current files; overlay-injected files carry the build tag expression `verif || !verif`",
            "baseline_off_cmd": BASE,
            "source_commits": [],
            "add_only": True,
        },
        "engines": [
            {"name": "vcheck", "path": "/verif/cmd/vcheck", "serves_properties": sorted(CHECKS),
             "kind_free_text": "hand-written Go explorer: stateless choice-tree DFS with deviation bounding sharded over 16 worker processes, explicit-state BFS over op sequences replayed on fresh real instances, controlled goroutine scheduler; all executions run the code in /repo"},
        ],
        "checks": checks,
        "not_applicable": na,
        "notes": "All checks rebuild from /repo's working tree on every invocation (go build with replace => /repo). Exit 0 held / only known findings, 1 VIOLATION, 2 infrastructure.",
    }
    json.dump(m, open("MANIFEST.json", "w"), indent=1)
    print("checks:", len(checks), "not_applicable:", len(na))

main()
