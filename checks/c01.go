package checks

import (
	"fmt"
	"os"
	"strings"
	"time"

	"github.com/wrgl/wrgl/pkg/objects"
	"github.com/wrgl/wrgl/pkg/ref"

	"verif/mc"
	"verif/model"
	"verif/stores"
)

// C01 — committing a CSV stores exactly its rows (one per primary key), losslessly.

var orderedPKs = map[int][][]int{
	1: {{}, {0}},
	2: {{}, {0}, {1}, {0, 1}, {1, 0}},
	3: {{}, {0}, {1}, {2}, {0, 1}, {1, 0}, {0, 2}, {2, 0}, {1, 2}, {2, 1}, {0, 1, 2}, {2, 1, 0}, {1, 0, 2}, {0, 2, 1}, {1, 2, 0}, {2, 0, 1}},
}

var colNames = []string{"a", "b", "c"}

func chooseConfig(c *mc.Ctx, k *ingestCfg) {
	k.runSize = []uint64{0, 1, 25}[c.ChooseDev(3)]
	k.workers = 1 + c.ChooseDev(3)
	k.delim = []rune{',', '|', '\t', ';'}[c.ChooseDev(4)]
}

// runIngestCase ingests and applies the C01 oracle plus I-TABLE (C03's statement).
func runIngestCase(c *mc.Ctx, k *ingestCfg, B int, classPrefix string) (sum []byte, db *stores.MemStore) {
	desc := k.describe()
	c.Logf("%s", desc)
	text := csvBytes(k.cols, k.rows, k.delim)
	pcols, prows, err := parseCSV(text, k.delim)
	if err != nil {
		panic("mc: harness generated a CSV that encoding/csv rejects: " + err.Error())
	}
	db = stores.NewMemStore()
	var ierr error
	if p, st := mc.Try(func() { sum, ierr = ingestOnce(db, k, text) }); p != nil {
		c.Fail(classPrefix+"panic", "ingest panicked: %v; %s\n%s", p, desc, firstLinesOf(st, 14))
		return nil, db
	}
	if ierr != nil {
		c.Fail(classPrefix+"error", "ingest of a well-formed CSV failed: %v; %s", ierr, desc)
		return nil, db
	}
	if msg := checkStoredRows(db, sum, pcols, k.pk, prows); msg != "" {
		c.Fail(classPrefix+"rows", "%s; %s", msg, desc)
		return nil, db
	}
	if msg := model.CheckTable(db, sum, B, true); msg != "" {
		c.Fail(classPrefix+"structure", "%s; %s", msg, desc)
		return nil, db
	}
	return sum, db
}

func c01Small(c *mc.Ctx) {
	ncols := 1 + c.Choose(3)
	maxRows := map[int]int{1: 4, 2: 3, 3: 2}[ncols]
	if c.Thorough() {
		maxRows++
	}
	k := &ingestCfg{cols: colNames[:ncols]}
	pks := orderedPKs[ncols]
	k.pk = pks[c.Choose(len(pks))]
	nr := c.Choose(maxRows + 1)
	cells := []string{"", "a", "b"}
	for i := 0; i < nr; i++ {
		row := make([]string, ncols)
		for j := range row {
			row[j] = mc.Pick(c, cells)
		}
		k.rows = append(k.rows, row)
	}
	chooseConfig(c, k)
	c.Shard()
	sum, _ := runIngestCase(c, k, 255, "")
	nk := len(model.DistinctKeys(k.rows, k.pk))
	c.Outcome(fmt.Sprintf("keys%d-rows%d", nk, len(k.rows)))
	if sum != nil && len(k.rows) >= 2 {
		c.Nontrivial(k.describe())
	}
	if c.WantSample() && len(k.rows) >= 3 && nk < len(k.rows) {
		c.Sample(k.describe())
	}
}

// hostile cell contents placed at every position of small tables
func c01Hostile(c *mc.Ctx) {
	hostile := []string{`"`, `a"b`, "\n", "a\nb", ",", " a", "\xff\xfe", "a\r\nb", "|", "\t", ";"}
	shape := c.Choose(2) // 2x2 or 3x3
	n := 2 + shape
	k := &ingestCfg{cols: colNames[:n]}
	pks := orderedPKs[n]
	k.pk = pks[c.Choose(len(pks))]
	for i := 0; i < n; i++ {
		row := make([]string, n)
		for j := range row {
			row[j] = fmt.Sprintf("%c%d", 'p'+j, i)
		}
		k.rows = append(k.rows, row)
	}
	r, col := c.Choose(n), c.Choose(n)
	k.rows[r][col] = mc.Pick(c, hostile)
	chooseConfig(c, k)
	c.Shard()
	sum, _ := runIngestCase(c, k, 255, "")
	c.Outcome(fmt.Sprintf("hostile-ok=%v", sum != nil))
	if sum != nil {
		c.Nontrivial(k.describe())
	}
	if c.WantSample() {
		c.Sample(k.describe())
	}
}

// long cells: at, just under and over the 65535-byte limit, and rows crossing 64 KiB
func c01Long(c *mc.Ctx) {
	lens := []int{65534, 65535, 65536, 65537, 70000, 131072}
	kind := c.Choose(3)
	k := &ingestCfg{cols: []string{"a", "b", "c", "d"}}
	k.pk = [][]int{{0}, {}, {3}}[c.Choose(3)]
	expectErr := false
	if kind == 0 {
		l := mc.Pick(c, lens)
		pos := c.Choose(4)
		k.rows = [][]string{{"k1", "x", "y", "z"}, {"k2", "x", "y", "z"}}
		k.rows[c.Choose(2)][pos] = strings.Repeat("L", l)
		expectErr = l > 65535
	} else if kind == 2 {
		// a header cell (column name) at and over the limit
		l := mc.Pick(c, []int{65535, 65536, 70000})
		k.cols = []string{"a", "b", "c", strings.Repeat("H", l)}
		k.rows = [][]string{{"k1", "x", "y", "z"}, {"k2", "x", "y", "z"}}
		expectErr = l > 65535
	} else {
		// two 40000-byte cells (each legal) followed / preceded by a short cell
		big := strings.Repeat("M", 40000)
		layouts := [][]string{{"k1", big, big, "tail"}, {big, "k1", big, "tail"}, {"k1", big, "mid", big}, {big, big, big, "k1"}}
		k.rows = [][]string{layouts[c.Choose(len(layouts))], {"k0", "s", "t", "u"}}
	}
	k.runSize = []uint64{0, 1}[c.Choose(2)]
	k.workers = 1
	k.delim = ','
	c.Shard()
	desc := k.describe()
	c.Logf("%s", desc)
	text := csvBytes(k.cols, k.rows, k.delim)
	db := stores.NewMemStore()
	var sum []byte
	var ierr error
	if p, st := mc.Try(func() { sum, ierr = ingestOnce(db, k, text) }); p != nil {
		c.Fail("long-panic", "ingest panicked: %v; %s\n%s", p, desc, firstLinesOf(st, 10))
		return
	}
	if expectErr {
		if ierr == nil {
			msg := checkStoredRows(db, sum, k.cols, k.pk, k.rows)
			c.Fail("long-accepted", "a cell over the 65535-byte limit was accepted instead of refused (read-back: %s); %s", msg, desc)
		}
		c.Outcome("refused")
		c.Nontrivial(desc)
		return
	}
	if ierr != nil {
		c.Fail("long-error", "ingest failed although every cell is within the limit: %v; %s", ierr, desc)
		return
	}
	if msg := checkStoredRows(db, sum, k.cols, k.pk, k.rows); msg != "" {
		c.Fail("long-rows", "%s; %s", msg, desc)
		return
	}
	if msg := model.CheckTable(db, sum, 255, true); msg != "" {
		c.Fail("long-structure", "%s; %s", msg, desc)
	}
	c.Outcome("stored")
	c.Nontrivial(desc)
	if c.WantSample() {
		c.Sample(desc)
	}
}

// boundary sizes at the real block size with one duplicate key straddling chunk and block edges
func c01Boundary(c *mc.Ctx) {
	sizes := []int{254, 255, 256, 509, 510, 511}
	if c.Thorough() {
		sizes = append(sizes, 765, 766)
	}
	n := mc.Pick(c, sizes)
	k := &ingestCfg{cols: []string{"k", "v"}, pk: []int{0}}
	if c.ChooseDev(2) == 1 {
		k.pk = nil
	}
	emptyKeyFirst := c.Choose(2) == 1
	for i := 0; i < n; i++ {
		key := fmt.Sprintf("%04d", i)
		if i == 0 && emptyKeyFirst {
			key = ""
		}
		k.rows = append(k.rows, []string{key, "v" + key})
	}
	// positions (in sorted order) whose key is duplicated, and where the copy sits in the file
	dupKeys := []int{-1, 0, 253, 254, 255, 256, n - 1}
	dk := mc.Pick(c, dupKeys)
	if dk >= n {
		c.Skip()
	}
	if dk >= 0 {
		dup := []string{k.rows[dk][0], "dup"}
		if len(k.pk) == 0 {
			dup = []string{k.rows[dk][0], k.rows[dk][1]} // keyless: an identical row
		}
		where := c.Choose(3)
		switch where {
		case 0:
			k.rows = append([][]string{dup}, k.rows...)
		case 1:
			k.rows = append(k.rows, dup)
		default:
			mid := n / 2
			k.rows = append(k.rows[:mid:mid], append([][]string{dup}, k.rows[mid:]...)...)
		}
	}
	// file order: ascending, descending
	if c.Choose(2) == 1 {
		for i, j := 0, len(k.rows)-1; i < j; i, j = i+1, j-1 {
			k.rows[i], k.rows[j] = k.rows[j], k.rows[i]
		}
	}
	k.runSize = []uint64{0, uint64(n) * 8, 1600, 1}[c.Choose(4)]
	k.workers = 1 + c.Choose(3)
	k.delim = ','
	c.Shard()
	sum, _ := runIngestCase(c, k, 255, "boundary-")
	c.Outcome(fmt.Sprintf("n%d-ok=%v", n, sum != nil))
	if sum != nil {
		c.Nontrivial(k.describe())
	}
	if c.WantSample() && dk >= 0 {
		c.Sample(k.describe())
	}
}

// CLI path: `wrgl commit` then `wrgl export` on an on-disk repository, in-process.
func c01CLI(c *mc.Ctx) {
	kind := c.Choose(3)
	k := &ingestCfg{workers: 1, delim: ','}
	expectRefusal := false
	switch kind {
	case 0: // small tables of 2 columns, <= 2 rows
		k.cols = colNames[:2]
		k.pk = orderedPKs[2][c.Choose(len(orderedPKs[2]))]
		nr := c.Choose(3)
		cells := []string{"", "a", "b"}
		if !c.Thorough() {
			cells = cells[:2]
		}
		for i := 0; i < nr; i++ {
			k.rows = append(k.rows, []string{mc.Pick(c, cells), mc.Pick(c, cells)})
		}
	case 1: // hostile cells
		k.cols = colNames[:2]
		k.pk = [][]int{{0}, {}, {1}}[c.Choose(3)]
		k.rows = [][]string{{"p0", "q0"}, {"p1", "q1"}}
		k.rows[c.Choose(2)][c.Choose(2)] = mc.Pick(c, []string{`"`, `a"b`, "a\nb", ",", " a", "\xff\xfe", "|"})
	default: // long cells
		k.cols = []string{"a", "b", "c"}
		k.pk = []int{0}
		l := mc.Pick(c, []int{65535, 65536, 70000})
		k.rows = [][]string{{"k1", strings.Repeat("L", l), "z"}, {"k0", strings.Repeat("M", 40000), strings.Repeat("N", 40000)}}
		expectRefusal = l > 65535
	}
	memLimit := []string{"", "1"}[c.ChooseDev(2)]
	workers := []string{"1", "4"}[c.ChooseDev(2)]
	k.delim = []rune{',', '|'}[c.ChooseDev(2)]
	if kind == 1 {
		k.delim = ','
	}
	c.Shard()
	desc := k.describe() + " memLimit=" + memLimit + " numWorkers=" + workers
	c.Logf("%s", desc)
	repo, err := newCLIRepo()
	if err != nil {
		panic("mc: cannot create CLI repository: " + err.Error())
	}
	defer repo.remove()
	text := csvBytes(k.cols, k.rows, k.delim)
	pcols, prows, err := parseCSV(text, k.delim)
	if err != nil {
		panic("mc: generated CSV rejected: " + err.Error())
	}
	fp, _ := repo.writeFile("data.csv", text)
	args := []string{"commit", "main", fp, "msg", "-n", workers}
	if len(k.pk) > 0 {
		args = append(args, "-p", strings.Join(k.pkNames(), ","))
	}
	if memLimit != "" {
		args = append(args, "--mem-limit", memLimit)
	}
	if k.delim != ',' {
		args = append(args, "--delimiter", string(k.delim))
	}
	var cerr error
	if p, st := mc.Try(func() { _, cerr = repo.run(nil, args...) }); p != nil {
		c.Fail("cli-panic", "wrgl commit panicked: %v; %s\n%s", p, desc, firstLinesOf(st, 10))
		return
	}
	if expectRefusal {
		if cerr == nil {
			c.Fail("cli-long-accepted", "wrgl commit accepted a cell over 65535 bytes; %s", desc)
		}
		c.Outcome("refused")
		c.Nontrivial(desc)
		return
	}
	if cerr != nil {
		c.Fail("cli-error", "wrgl commit failed: %v; %s", cerr, desc)
		return
	}
	out, err := repo.run(nil, "export", "main")
	if err != nil {
		c.Fail("cli-error", "wrgl export failed: %v; %s", err, desc)
		return
	}
	ecols, erows, err := parseCSV([]byte(out), ',')
	if err != nil && !(len(out) == 0) {
		c.Fail("cli-export", "export output does not parse as CSV: %v; %s", err, desc)
		return
	}
	if fmt.Sprintf("%q", ecols) != fmt.Sprintf("%q", pcols) {
		c.Fail("cli-export", "exported columns %q, CSV had %q; %s", ecols, pcols, desc)
		return
	}
	if msg := model.CheckSortedUnique(prows, k.pk, nil, erows, k.pk); msg != "" {
		c.Fail("cli-export", "exported rows: %s; got %s; %s", msg, shortRows(erows), desc)
		return
	}
	// read back through the on-disk stores as well
	db, rs, closeFn, err := repo.open()
	if err != nil {
		c.Fail("cli-error", "reopening the repository failed: %v; %s", err, desc)
		return
	}
	defer closeFn()
	head, err := ref.GetHead(rs, "main")
	if err != nil {
		c.Fail("cli-error", "branch not written: %v; %s", err, desc)
		return
	}
	com, err := objects.GetCommit(db, head)
	if err != nil {
		c.Fail("cli-error", "commit unreadable: %v; %s", err, desc)
		return
	}
	if msg := checkStoredRows(db, com.Table, pcols, k.pk, prows); msg != "" {
		c.Fail("cli-rows", "%s; %s", msg, desc)
		return
	}
	if msg := model.CheckTable(db, com.Table, 255, true); msg != "" {
		c.Fail("cli-structure", "%s; %s", msg, desc)
	}
	c.Outcome("exported")
	c.Nontrivial(desc)
	if c.WantSample() {
		c.Sample(desc)
	}
}

// c01BranchFile: committing from the file configured for the branch (`wrgl commit BRANCH MSG`). The
// command caches the last ingest of that file under BRANCH-tmp and decides by the file's
// modification time whether to ingest again; the modification time is an environment answer, so
// the harness sets it: in the same second as the cached ingest but later, or seconds later.
func c01BranchFile(c *mc.Ctx) {
	sameSecond := c.Choose(2) == 0
	variant := c.Choose(3) // how the third version differs from the second
	noCache := c.ChooseDev(2) == 1
	c.Shard()
	desc := fmt.Sprintf("branch.file recommit: third version %d, file rewritten in the same second as the cached ingest=%v, --no-cache=%v", variant, sameSecond, noCache)
	c.Logf("%s", desc)
	repo, err := newCLIRepo()
	if err != nil {
		panic("mc: cannot create CLI repository: " + err.Error())
	}
	defer repo.remove()
	cols := []string{"a", "b"}
	v1 := [][]string{{"1", "q"}, {"2", "r"}}
	v2 := [][]string{{"1", "q"}, {"2", "r"}, {"3", "s"}}
	v3 := [][][]string{{{"1", "q"}, {"2", "CHANGED"}, {"3", "s"}}, {{"1", "q"}}, {{"4", "t"}, {"1", "q"}, {"2", "r"}, {"3", "s"}}}[variant]
	fp, _ := repo.writeFile("data.csv", csvBytes(cols, v1, ','))
	if _, err := repo.run(nil, "commit", "main", fp, "first", "-p", "a", "-n", "1", "--set-file", "--set-primary-key"); err != nil {
		c.Fail("cli-error", "first commit failed: %v; %s", err, desc)
		return
	}
	repo.writeFile("data.csv", csvBytes(cols, v2, ','))
	os.Chtimes(fp, time.Now().Add(10*time.Second), time.Now().Add(10*time.Second))
	if _, err := repo.run(nil, "commit", "main", "second", "-n", "1"); err != nil {
		c.Fail("cli-error", "second commit (from branch.file) failed: %v; %s", err, desc)
		return
	}
	// the cached ingest and its time (second resolution)
	db, rs, closeFn, err := repo.open()
	if err != nil {
		panic(err)
	}
	var cached time.Time
	if sum, err := ref.GetHead(rs, "main-tmp"); err == nil {
		if com, err := objects.GetCommit(db, sum); err == nil {
			cached = com.Time
		}
	}
	closeFn()
	if cached.IsZero() {
		cached = time.Now().Truncate(time.Second)
	}
	repo.writeFile("data.csv", csvBytes(cols, v3, ','))
	mt := cached.Add(5 * time.Second)
	if sameSecond {
		mt = cached.Truncate(time.Second).Add(500 * time.Millisecond)
	}
	os.Chtimes(fp, mt, mt)
	args := []string{"commit", "main", "third", "-n", "1"}
	if noCache {
		args = append(args, "--no-cache")
	}
	if _, err := repo.run(nil, args...); err != nil {
		c.Fail("cli-error", "third commit (from branch.file) failed: %v; %s", err, desc)
		return
	}
	out, err := repo.run(nil, "export", "main")
	if err != nil {
		c.Fail("cli-error", "wrgl export failed: %v; %s", err, desc)
		return
	}
	_, erows, err := parseCSV([]byte(out), ',')
	if err != nil {
		c.Fail("cli-export", "export output does not parse as CSV: %v; %s", err, desc)
		return
	}
	if msg := model.CheckSortedUnique(v3, []int{0}, nil, erows, []int{0}); msg != "" {
		c.Fail("cli-stale-file", "after committing the rewritten branch file the branch holds %s, the file has %s: %s; %s", shortRows(erows), shortRows(v3), msg, desc)
		return
	}
	c.Outcome(fmt.Sprintf("recommitted-sameSecond=%v", sameSecond))
	c.Nontrivial(desc)
}

func init() {
	register(&mc.Check{
		ID:    "C01",
		Level: "exploration",
		Rule: "small: every table of 1..3 columns (cells {'',a,b}), every ordered key subset incl. none, every sequence of 0..4/3/2 rows (one more in thorough), crossed with up to d deviations from (no spill, 1 worker, ',') over run size {none, every row, ~2 rows} x workers 1..3 x delimiter {, | tab ;}; " +
			"hostile: one cell from {quote, embedded quote, newline, CRLF, delimiter characters, leading space, non-UTF8} at every position of 2x2 and 3x3 tables under every key; long: a cell of 65534/65535/65536/65537/70000/131072 bytes at every column, and rows crossing 64 KiB; " +
			"boundary: 254..766 unique keys (real block size) with an optional duplicate of the key at sorted position {0,253,254,255,256,last} placed first/last/middle of the file, ascending/descending file order, empty smallest key, 4 run sizes, 1..3 workers. " +
			"cli: `wrgl commit` (with -p, --mem-limit, -n, --delimiter) then `wrgl export` through the real command tree on an on-disk repository for small, hostile and long-cell tables; and `wrgl commit BRANCH MSG` from the branch's configured file, rewritten twice, the last time with a modification time set by the harness to the same second as the cached ingest (but later) or seconds later, with and without --no-cache. " +
			"Each case runs the real ingest.IngestTable into an in-memory store and the stored table is read back block by block and compared with the CSV as encoding/csv parses it (one row per key, each some input row, ascending), plus the structural oracle of C03. " +
			"non-trivial = ingest succeeded on >= 2 rows (or a long/hostile case); distinct by full case description",
		Assumptions: []string{
			"the CSV's rows are what encoding/csv (the reader the implementation uses) parses from the text",
			"when several rows carry one key any of them may be stored",
			"cell lengths other than the listed boundary values are not enumerated",
		},
		Harnesses: []*mc.Harness{
			{Name: "small", Body: c01Small, DevBound: map[string]int{"quick": 2, "thorough": 3}, Budget: map[string]time.Duration{"quick": 50 * time.Second, "thorough": 12 * time.Minute}},
			{Name: "hostile", Body: c01Hostile, DevBound: map[string]int{"quick": 1, "thorough": 3}, Budget: map[string]time.Duration{"quick": 30 * time.Second, "thorough": 5 * time.Minute}},
			{Name: "long-cells", Body: c01Long, MemKB: 8 << 20, Budget: map[string]time.Duration{"quick": 40 * time.Second, "thorough": 5 * time.Minute}},
			{Name: "cli-branch-file", Body: c01BranchFile, DevBound: map[string]int{"quick": 1, "thorough": 1}, Budget: map[string]time.Duration{"quick": 40 * time.Second, "thorough": 2 * time.Minute}},
			{Name: "cli-commit-export", Body: c01CLI, DevBound: map[string]int{"quick": 1, "thorough": 3}, Budget: map[string]time.Duration{"quick": 50 * time.Second, "thorough": 8 * time.Minute}},
			{Name: "boundary", Body: c01Boundary, DevBound: map[string]int{"quick": 1, "thorough": 1}, Budget: map[string]time.Duration{"quick": 50 * time.Second, "thorough": 10 * time.Minute}},
		},
	})
}
