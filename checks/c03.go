package checks

import (
	"bytes"
	"context"
	"fmt"
	"time"

	"github.com/go-logr/logr"
	"github.com/pckhoi/meow"
	"github.com/wrgl/wrgl/pkg/conf"
	"github.com/wrgl/wrgl/pkg/doctor"
	"github.com/wrgl/wrgl/pkg/objects"
	"github.com/wrgl/wrgl/pkg/ref"

	"verif/mc"
	"verif/model"
	"verif/stores"
)

// C03 — every stored table is structurally sound and its indices agree with its rows.

// commitTable stores a commit pointing at table sum and a branch pointing at the commit.
func commitTable(db objects.Store, rs ref.Store, branch string, tblSum []byte, parents [][]byte, t int) ([]byte, error) {
	c := &objects.Commit{Table: tblSum, AuthorName: "a", AuthorEmail: "a@b", Message: "m", Time: baseTime.Add(time.Duration(t) * time.Second), Parents: parents}
	buf := bytes.NewBuffer(nil)
	if _, err := c.WriteTo(buf); err != nil {
		return nil, err
	}
	sum, err := objects.SaveCommit(db, buf.Bytes())
	if err != nil {
		return nil, err
	}
	if branch != "" {
		if err := ref.CommitHead(rs, branch, sum, c, nil); err != nil {
			return nil, err
		}
	}
	return sum, nil
}

// diagnose runs the repository's own doctor over all refs and returns its issues.
func diagnose(db objects.Store, rs ref.Store) ([]*doctor.Issue, error) {
	d := doctor.NewDoctor(db, rs, conf.User{Name: "v", Email: "v@v"}, logr.Discard())
	ch, errCh, err := d.Diagnose(context.Background(), nil, nil, nil)
	if err != nil {
		return nil, err
	}
	var out []*doctor.Issue
	for ri := range ch {
		out = append(out, ri.Issues...)
	}
	if err := <-errCh; err != nil {
		return nil, err
	}
	return out, nil
}

func doctorClean(c *mc.Ctx, db objects.Store, tblSum []byte, desc string) {
	rs := stores.NewMapRefStore()
	if _, err := commitTable(db, rs, "main", tblSum, nil, 0); err != nil {
		panic(err)
	}
	issues, err := diagnose(db, rs)
	if err != nil {
		c.Fail("doctor-error", "doctor.Diagnose failed: %v; %s", err, desc)
		return
	}
	if len(issues) > 0 {
		c.Fail("doctor-false-issue", "the table satisfies every structural clause, yet the repository's own diagnosis reports %q (resolution %s); %s", issues[0].Err, issues[0].Resolution, desc)
	}
}

var c03universe = []string{"", "a", "b", "c", "d", "e", "f", "g", "h", "i"}

func c03B3(c *mc.Ctx) {
	needRewrite("blocksize:sorter")
	needRewrite("blocksize:table")
	needRewrite("blocksize:block")
	mask := c.Choose(1 << uint(len(c03universe)))
	k := &ingestCfg{cols: []string{"k", "v"}, pk: []int{0}}
	if c.ChooseDev(2) == 1 {
		k.pk = nil
	}
	for i, key := range c03universe {
		if mask&(1<<uint(i)) != 0 {
			k.rows = append(k.rows, []string{key, key})
		}
	}
	if c.ChooseDev(2) == 1 { // descending file order
		for i, j := 0, len(k.rows)-1; i < j; i, j = i+1, j-1 {
			k.rows[i], k.rows[j] = k.rows[j], k.rows[i]
		}
	}
	if len(k.rows) > 0 && c.ChooseDev(2) == 1 { // a duplicate of the last key in file order, put first
		k.rows = append([][]string{{k.rows[len(k.rows)-1][0], k.rows[len(k.rows)-1][1]}}, k.rows...)
	}
	chooseConfig(c, k)
	c.Shard()
	sum, db := runIngestCase(c, k, 3, "")
	if sum != nil {
		doctorClean(c, db, sum, k.describe())
		c.Nontrivial(k.describe())
	}
	c.Outcome(fmt.Sprintf("rows%d-blocks%d", len(k.rows), (len(k.rows)+2)/3))
	if c.WantSample() && len(k.rows) >= 7 {
		c.Sample(k.describe() + " (block size scaled to 3)")
	}
}

// composite keys of up to 3 columns in every order (the key cells are picked and hashed in key order)
func c03Composite(c *mc.Ctx) {
	needRewrite("blocksize:sorter")
	pks := orderedPKs[3]
	pk := pks[c.Choose(len(pks))]
	nrows := c.Choose(6)
	extra := c.Choose(2) // a 4th, non-key column
	k := &ingestCfg{cols: []string{"a", "b", "c"}}
	if extra == 1 {
		k.cols = []string{"a", "b", "c", "d"}
	}
	k.pk = pk
	for i := 0; i < nrows; i++ {
		// distinct in every column, and ordered differently per column
		row := []string{fmt.Sprintf("a%d", i), fmt.Sprintf("b%d", (i*3)%7), fmt.Sprintf("c%d", 9-i)}
		if extra == 1 {
			row = append(row, "d")
		}
		k.rows = append(k.rows, row)
	}
	chooseConfig(c, k)
	c.Shard()
	sum, db := runIngestCase(c, k, 3, "")
	if sum != nil {
		doctorClean(c, db, sum, k.describe())
		c.Nontrivial(k.describe())
	}
	c.Outcome(fmt.Sprintf("pk%d-rows%d", len(pk), nrows))
	if c.WantSample() && len(pk) == 3 && nrows > 3 {
		c.Sample(k.describe() + " (block size scaled to 3)")
	}
}

func c03Real(c *mc.Ctx) {
	n := mc.Pick(c, []int{0, 1, 2, 254, 255, 256, 509, 510, 511, 765})
	k := &ingestCfg{cols: []string{"k", "v"}, pk: [][]int{{0}, {}, {1, 0}}[c.Choose(3)]}
	allEmptyFirst := c.Choose(2) == 1
	for i := 0; i < n; i++ {
		key := fmt.Sprintf("%04d", i)
		v := "v" + key
		if i == 0 && allEmptyFirst {
			key, v = "", ""
		}
		k.rows = append(k.rows, []string{key, v})
	}
	k.runSize = []uint64{0, 1600}[c.Choose(2)]
	k.workers = 1 + c.Choose(2)*2
	k.delim = ','
	c.Shard()
	sum, db := runIngestCase(c, k, 255, "")
	if sum != nil {
		doctorClean(c, db, sum, k.describe())
		c.Nontrivial(k.describe())
	}
	c.Outcome(fmt.Sprintf("rows%d", n))
	if c.WantSample() && n > 255 {
		c.Sample(k.describe())
	}
}

// saveRawTable stores a table made of the given rows in blocks of B rows WITHOUT sorting or
// deduplicating them (used to build corrupted twins).
func saveRawTable(db objects.Store, cols []string, pk []uint32, rows [][]string, B int, rowsCount int) ([]byte, error) {
	tbl := objects.NewTable(cols, pk)
	tbl.RowsCount = uint32(rowsCount)
	enc := objects.NewStrListEncoder(true)
	var tblIdx [][]string
	for off := 0; off < len(rows); off += B {
		end := off + B
		if end > len(rows) {
			end = len(rows)
		}
		blk := rows[off:end]
		buf := bytes.NewBuffer(nil)
		if _, err := objects.WriteBlockTo(enc, buf, blk); err != nil {
			return nil, err
		}
		bsum, _, err := objects.SaveBlock(db, nil, buf.Bytes())
		if err != nil {
			return nil, err
		}
		idx, err := objects.IndexBlock(enc, meow.New(0), blk, pk)
		if err != nil {
			return nil, err
		}
		buf.Reset()
		idx.WriteTo(buf)
		isum, _, err := objects.SaveBlockIndex(db, nil, buf.Bytes())
		if err != nil {
			return nil, err
		}
		tbl.Blocks = append(tbl.Blocks, bsum)
		tbl.BlockIndices = append(tbl.BlockIndices, isum)
		ipk := make([]int, len(pk))
		for i, p := range pk {
			ipk[i] = int(p)
		}
		tblIdx = append(tblIdx, model.Key(blk[0], ipk))
	}
	buf := bytes.NewBuffer(nil)
	if _, err := tbl.WriteTo(buf); err != nil {
		return nil, err
	}
	sum, err := objects.SaveTable(db, buf.Bytes())
	if err != nil {
		return nil, err
	}
	buf.Reset()
	objects.WriteBlockTo(enc, buf, tblIdx)
	return sum, objects.SaveTableIndex(db, sum, buf.Bytes())
}

// doctor producer: a corrupted twin (one row stored twice) is diagnosed and resolved; the
// resolved table must satisfy the structural statement.
func c03Doctor(c *mc.Ctx) {
	needRewrite("blocksize:sorter")
	n := 1 + c.Choose(7)
	dupAt := c.Choose(n)
	pk := [][]uint32{{0}, {}}[c.Choose(2)]
	w2 := 1 + c.Choose(3) // columns of the parent commit's table: narrower than, as wide as, wider than the head's
	c.Shard()
	var rows [][]string
	for i := 0; i < n; i++ {
		rows = append(rows, []string{c03universe[i+1], "v" + c03universe[i+1]})
	}
	corrupted := append([][]string{}, rows[:dupAt+1]...)
	corrupted = append(corrupted, rows[dupAt])
	corrupted = append(corrupted, rows[dupAt+1:]...)
	desc := fmt.Sprintf("rows=%s with row %d stored twice, pk=%v (block size scaled to 3); the parent commit's table has %d column(s)", shortRows(rows), dupAt, pk, w2)
	c.Logf("%s", desc)
	db := stores.NewMemStore()
	rs := stores.NewMapRefStore()
	// the blocks count recorded must match ceil(rows/B), so record the inflated count
	bad, err := saveRawTable(db, []string{"k", "v"}, pk, corrupted, 3, len(corrupted))
	if err != nil {
		panic(err)
	}
	// the branch has two commits, both with a corrupted table: the resolver goes through both issues
	// with one sorter (Reset in between)
	rows2 := [][]string{{"p", "vp"}, {"q", "vq"}, {"r", "vr"}, {"s", "vs"}}
	cols2 := []string{"k", "v"}
	switch w2 {
	case 1:
		rows2 = [][]string{{"p"}, {"q"}, {"r"}, {"s"}}
		cols2 = []string{"k"}
	case 3:
		cols2 = []string{"k", "v", "w"}
		if len(pk) == 0 {
			// keyless: rows that differ only in the last column
			rows2 = [][]string{{"p", "vp", "1"}, {"p", "vp", "2"}, {"r", "vr", "1"}, {"r", "vr", "2"}}
		} else {
			rows2 = [][]string{{"p", "vp", "1"}, {"q", "vp", "1"}, {"r", "vr", "2"}, {"s", "vr", "2"}}
		}
	}
	corrupted2 := [][]string{rows2[0], rows2[0], rows2[1], rows2[2], rows2[3]}
	bad2, err := saveRawTable(db, cols2, pk, corrupted2, 3, len(corrupted2))
	if err != nil {
		panic(err)
	}
	first, err := commitTable(db, rs, "", bad2, nil, 0)
	if err != nil {
		panic(err)
	}
	if _, err := commitTable(db, rs, "main", bad, [][]byte{first}, 1); err != nil {
		panic(err)
	}
	issues, err := diagnose(db, rs)
	if err != nil {
		c.Fail("doctor-error", "Diagnose failed: %v; %s", err, desc)
		return
	}
	if len(issues) == 0 {
		c.Outcome("not-diagnosed")
		return // detecting corruption is not part of this property
	}
	d := doctor.NewDoctor(db, rs, conf.User{Name: "v", Email: "v@v"}, logr.Discard())
	var rerr error
	if p, st := mc.Try(func() { rerr = d.Resolve(issues) }); p != nil {
		c.Fail("doctor-panic", "doctor.Resolve panicked: %v; %s\n%s", p, desc, firstLinesOf(st, 10))
		return
	}
	if rerr != nil {
		c.Fail("doctor-error", "doctor.Resolve failed: %v; %s", rerr, desc)
		return
	}
	head, err := ref.GetHead(rs, "main")
	if err != nil {
		c.Fail("doctor-error", "branch missing after resolve; %s", desc)
		return
	}
	com, err := objects.GetCommit(db, head)
	if err != nil {
		c.Fail("doctor-error", "commit unreadable after resolve: %v; %s", err, desc)
		return
	}
	if msg := model.CheckTable(db, com.Table, 3, true); msg != "" {
		c.Fail("doctor-structure", "table produced by doctor resolve: %s; %s", msg, desc)
		return
	}
	ipk := make([]int, len(pk))
	for i, p := range pk {
		ipk[i] = int(p)
	}
	if msg := checkStoredRows(db, com.Table, []string{"k", "v"}, ipk, rows); msg != "" {
		c.Fail("doctor-rows", "table produced by doctor resolve: %s; %s", msg, desc)
		return
	}
	if len(com.Parents) != 1 {
		c.Fail("doctor-error", "head commit has %d parents after resolve, expected 1; %s", len(com.Parents), desc)
		return
	}
	if com2, err := objects.GetCommit(db, com.Parents[0]); err != nil {
		c.Fail("doctor-error", "parent commit unreadable after resolve: %v; %s", err, desc)
		return
	} else {
		if msg := model.CheckTable(db, com2.Table, 3, true); msg != "" {
			c.Fail("doctor-structure", "table of the parent commit produced by doctor resolve: %s; %s", msg, desc)
			return
		}
		if msg := checkStoredRows(db, com2.Table, cols2, ipk, rows2); msg != "" {
			c.Fail("doctor-rows", "table of the parent commit produced by doctor resolve (same resolver): %s; %s", msg, desc)
			return
		}
	}
	c.Outcome("resolved")
	c.Nontrivial(desc)
	if c.WantSample() {
		c.Sample(desc)
	}
}

func init() {
	register(&mc.Check{
		ID:    "C03",
		Level: "exploration",
		Rule: "producer ingest, scaled block size 3 (build-time overlay of the literal 255): every key subset of a 10-key universe (1024 tables of 0..10 rows = 0..4 blocks, incl. the all-empty first row), crossed with up to d deviations over {keyless, descending file order, a duplicate key, run size, workers 1..3, delimiter}; " +
			"producer ingest, composite keys: 3..4-column tables of 0..5 rows under every ordered key subset of 3 columns (all 6 orders of a 3-column key); producer ingest, real block size: 0,1,2,254,255,256,509,510,511,765 rows x key {[0], none, [1,0]} x all-empty first row x run size x workers; producer doctor: every table of 1..7 rows with each row stored twice, as the head of a branch whose parent commit carries another corrupted table of 1, 2 or 3 columns (one resolver, its sorter reused across tables of different widths), keyed and keyless, is diagnosed and resolved. " +
			"Every produced table is checked by an independent structural oracle (row count, full blocks, strictly increasing keys, block stored under hash of content, block-index entries = hash(key)||hash(row) recomputed by an independent encoder, sorted-offset permutation, lookup of every key, table index = first keys, profile) " +
			"and by the repository's doctor.Diagnose (must report nothing). Merge-result and honest wire-receipt producers run the same oracle inside C05 and C07; the wire-receipt producer fed by a sender that is not honest (every sequence of 1..3, thorough 4, of 17 well-formed but mutually inconsistent objects, see C17) runs here: every table the receiver keeps must pass the same oracle. non-trivial = a table was produced; distinct by case description",
		Assumptions: []string{"the scaled configuration changes only the literal block size in sorter.go, block.go, table.go (self-checked: blocks of exactly 3 rows are demanded by the oracle)", "tables beyond 4 blocks are not enumerated"},
		Harnesses: []*mc.Harness{
			{Name: "b3-ingest", Variant: "b3", Body: c03B3, DevBound: map[string]int{"quick": 2, "thorough": 4}, Budget: map[string]time.Duration{"quick": 60 * time.Second, "thorough": 12 * time.Minute}},
			{Name: "b3-composite-keys", Variant: "b3", Body: c03Composite, DevBound: map[string]int{"quick": 1, "thorough": 3}, Budget: map[string]time.Duration{"quick": 40 * time.Second, "thorough": 5 * time.Minute}},
			{Name: "real-sizes", Body: c03Real, Budget: map[string]time.Duration{"quick": 50 * time.Second, "thorough": 5 * time.Minute}},
			// the wire-receipt producer fed by a sender that is not honest: the object sequences of C17, same body, judged by I-TABLE
			{Name: "receiver-object-sequences", Body: c17Objects, MemKB: 8 << 20, Procs: 1, Budget: map[string]time.Duration{"quick": 60 * time.Second, "thorough": 10 * time.Minute}},
			{Name: "b3-doctor-resolve", Variant: "b3", Body: c03Doctor, Budget: map[string]time.Duration{"quick": 30 * time.Second, "thorough": 5 * time.Minute}},
		},
	})
}
