package checks

import (
	"bytes"
	"context"
	"fmt"
	"github.com/wrgl/wrgl/pkg/pbar"
	"io"
	"os"
	"path/filepath"
	"reflect"
	"sort"
	"strings"
	"time"

	"github.com/go-logr/logr"
	"github.com/wrgl/wrgl/pkg/diff"
	"github.com/wrgl/wrgl/pkg/ingest"
	"github.com/wrgl/wrgl/pkg/merge"
	"github.com/wrgl/wrgl/pkg/objects"
	"github.com/wrgl/wrgl/pkg/progress"
	"github.com/wrgl/wrgl/pkg/sorter"
	"github.com/wrgl/wrgl/pkg/verifrt"

	"verif/mc"
	"verif/model"
	"verif/stores"
)

// C16 — concurrent pipelines give the sequential result under every schedule.
//
// The real pipeline code runs under the cooperative scheduler of the `sched` overlay: every
// go statement, channel operation, close, WaitGroup and Mutex call in inserter.go, sorter.go,
// diff.go, merger.go and row_collector.go is a scheduling point decided by the explorer.

// c16root distinguishes the state keys of different harness configurations
var c16root uint64

func setRoot(desc string) {
	h := uint64(14695981039346656037)
	for i := 0; i < len(desc); i++ {
		h ^= uint64(desc[i])
		h *= 1099511628211
	}
	c16root = h
}

func needSched() {
	for _, f := range []string{"pkg/ingest/inserter.go", "pkg/sorter/sorter.go", "pkg/diff/diff.go", "pkg/merge/merger.go", "pkg/merge/row_collector.go"} {
		needRewrite("sched:" + f)
	}
	needRewrite("blocksize:sorter")
}

// schedule runs body under a scheduler whose decisions come from the explorer: continuing the
// running thread is the default; switching away from a thread that could continue is a
// preemption (a bounded deviation); choosing among threads when the running one is blocked is free.
var c16states = map[uint64]struct{}{}

// scheduleDeep is schedule with the case handed to one worker only after the first k scheduling
// decisions (so that the schedule tree of ONE configuration is spread over all workers).
func scheduleDeep(c *mc.Ctx, k int, body func()) *verifrt.Sched {
	c16shardAfter = k
	defer func() { c16shardAfter = 0 }()
	s := schedule(c, body)
	if s.Abandoned {
		c.Abandon()
	}
	return s
}

var c16shardAfter int

// c16delayBound makes every departure from the deterministic default schedule (continue the running
// thread; when it blocks, run the lowest enabled thread id) a counted deviation - delay-bounded
// exploration (Emmi, Qadeer, Rakamaric, POPL 2011) instead of preemption bounding.
var c16delayBound bool

// c16free: run the harness bodies WITHOUT the scheduler (shims fall through to the native
// operations) in a binary compiled with the Go race detector - the cross-check for unsynchronised
// accesses that a cooperative scheduler cannot see (its hand-offs are happens-before edges).
var c16free bool

func schedule(c *mc.Ctx, body func()) *verifrt.Sched {
	if c16free {
		c.Shard()
		c.SetCrashClass("free-running")
		body()
		c.Count("free_runs", 1)
		return &verifrt.Sched{}
	}
	s := &verifrt.Sched{Horizon: 4000}
	decisions := 0
	shardPoint := func() {
		decisions++
		if c16shardAfter > 0 && decisions == c16shardAfter && !s.Abandoned {
			if !c.TryShard() {
				s.Abandon()
			}
		}
	}
	newStates := 0
	s.StateHook = func(k uint64) {
		k ^= c16root
		if _, ok := c16states[k]; !ok {
			c16states[k] = struct{}{}
			newStates++
		}
	}
	defer func() { c.Count("states", int64(newStates)) }()
	s.Choose = func(enabled []int, running int, runningEnabled bool) int {
		shardPoint()
		if s.Abandoned {
			return enabled[0]
		}
		if runningEnabled {
			list := []int{running}
			for _, e := range enabled {
				if e != running {
					list = append(list, e)
				}
			}
			return list[c.ChooseDev(len(list))]
		}
		if c16delayBound {
			// delay bounding: when the running thread is blocked the lowest enabled id runs by default;
			// any other choice is a counted deviation
			return enabled[c.ChooseDev(len(enabled))]
		}
		return enabled[c.Choose(len(enabled))]
	}
	s.ChooseN = func(n int) int {
		if s.Abandoned {
			return 0
		}
		return c.Choose(n)
	}
	s.Run(body)
	if s.Leaked > 0 {
		// goroutines left blocked after the caller got its answer: not a hang of the caller, counted only
		c.Count("schedules_with_leaked_goroutines", 1)
	}
	c.Count("transitions", int64(s.Steps))
	c.Count("traces", 1)
	return s
}

func schedFail(c *mc.Ctx, s *verifrt.Sched, desc string) bool {
	if s.Err == "" {
		return false
	}
	cls := "schedule-error"
	switch {
	case strings.HasPrefix(s.Err, "deadlock"):
		cls = "deadlock"
	case strings.HasPrefix(s.Err, "data race"):
		cls = "data-race"
	case strings.Contains(s.Err, "closed channel"):
		cls = "closed-channel"
	case strings.HasPrefix(s.Err, "no termination"):
		cls = "livelock"
	case strings.HasPrefix(s.Err, "panic"):
		cls = "panic"
	}
	c.Fail(cls, "%s; %s", s.Err, desc)
	return true
}

// sortedBlocksOf produces the sorter's blocks natively (no scheduler) for a row set.
func sortedBlocksOf(rows [][]string) ([]*sorter.Block, *sorter.Sorter) {
	s, err := sorter.NewSorter(sorter.WithRunSize(1 << 40))
	if err != nil {
		panic(err)
	}
	s.SetColumns([]string{"k", "v"})
	s.PK = []uint32{0}
	for _, r := range rows {
		s.AddRow(r)
	}
	errCh := make(chan error, 1)
	var out []*sorter.Block
	for b := range s.SortedBlocks(context.Background(), nil, errCh) {
		out = append(out, b)
	}
	return out, s
}

func keyedRows(n int) [][]string {
	var rows [][]string
	for i := 0; i < n; i++ {
		rows = append(rows, []string{fmt.Sprintf("%02d", i), fmt.Sprintf("v%d", i)})
	}
	return rows
}

// H1 / H3: the ingest worker pool draining a block channel fed by a producer thread
func c16IngestPool2(c *mc.Ctx) { c16IngestPool(c, 2) }
func c16IngestPool3(c *mc.Ctx) { c16IngestPool(c, 3) }

func c16IngestPool(c *mc.Ctx, workers int) {
	needSched()
	nblocks := 2
	caps := []int{0, 1, 10}
	if c.Thorough() {
		nblocks = 2 + c.Choose(2) // 2..3 blocks of 3 rows (last one shorter)
	}
	if c16free {
		nblocks = []int{2, 5, 9}[c.Choose(3)]
	}
	chanCap := caps[c.Choose(len(caps))]
	failAt := c.Choose(1 + 2*nblocks)            // 0 = healthy store; k = the k-th object-store write fails
	persistent := failAt > 0 && c.Choose(2) == 1 // ... and so does every later write (several workers see an error)
	rows := keyedRows(3*nblocks - 1)
	blocks, srt := sortedBlocksOf(rows)
	// sequential reference: one worker, native
	refDB := stores.NewMemStore()
	refCh := make(chan *sorter.Block, len(blocks))
	for _, b := range blocks {
		refCh <- b
	}
	close(refCh)
	want, err := ingest.IngestTableFromBlocks(refDB, srt, []string{"k", "v"}, []uint32{0}, refCh, logr.Discard(), ingest.WithNumWorkers(1))
	if err != nil {
		panic(err)
	}
	desc := fmt.Sprintf("ingest pool: %d blocks, %d workers, block channel capacity %d, store write #%d fails (0 = none; every later write too: %v)", len(blocks), workers, chanCap, failAt, persistent)
	c.Logf("%s", desc)
	setRoot(desc)
	db := stores.NewMemStore()
	if persistent {
		db.FailWriteFrom = failAt
	} else {
		db.FailWriteAt = failAt
	}
	var got []byte
	var gerr error
	s := scheduleDeep(c, 6, func() {
		ch := make(chan *sorter.Block, chanCap)
		verifrt.Go(func() {
			for _, b := range blocks {
				verifrt.Send(ch, b)
			}
			verifrt.Close(ch)
		})
		opts := []ingest.InserterOption{ingest.WithNumWorkers(workers + 2)}
		if c16free {
			// as `wrgl commit` does: every worker reports to one progress bar (the bar's own goroutines
			// are outside the cooperative scheduler, so the bar is only attached in the free-running pass)
			bars := pbar.NewContainer(io.Discard, false)
			blkPT := bars.NewBar(-1, "saving blocks", 0)
			opts = append(opts, ingest.WithProgressBar(blkPT))
			defer func() {
				blkPT.Done()
				bars.Wait()
			}()
		}
		got, gerr = ingest.IngestTableFromBlocks(db, srt, []string{"k", "v"}, []uint32{0}, ch, logr.Discard(), opts...)
	})
	if schedFail(c, s, desc) {
		return
	}
	if failAt > 0 && db.Injected > 0 {
		if gerr == nil {
			c.Fail("error-lost", "a store error in one worker was not reported to the caller; %s", desc)
			return
		}
		c.Outcome("error-reported")
		c.Nontrivial(desc)
		return
	}
	if gerr != nil {
		c.Fail("pipeline-error", "ingest failed: %v; %s", gerr, desc)
		return
	}
	if !bytes.Equal(got, want) {
		c.Fail("result-differs", "table %x under this schedule, %x with one worker; %s", got, want, desc)
		return
	}
	if msg := model.CheckTable(db, got, 3, true); msg != "" {
		c.Fail("result-unsound", "%s; %s", msg, desc)
		return
	}
	c.Outcome(fmt.Sprintf("ok-threads%d", s.MaxThread))
	c.Nontrivial(desc)
	if c.WantSample() {
		c.Sample(map[string]any{"case": desc, "scheduling_steps": s.Steps, "threads": s.MaxThread})
	}
}

// H2: sorter producer goroutine -> inserter workers (IngestTableFromSorter), one spilled chunk
func c16SorterIngest(c *mc.Ctx) {
	needSched()
	workers := 1 + c.Choose(2)
	spill := c.Choose(2) == 1
	corrupt := spill && c.Choose(2) == 1 // the spilled chunk cannot be read back completely (truncated temp file)
	c.Shard()
	rows := keyedRows(7)
	rows = append(rows, []string{"03", "dup"})
	mk := func() *sorter.Sorter {
		rs := uint64(1 << 40)
		if spill {
			rs = 40
		}
		s, err := sorter.NewSorter(sorter.WithRunSize(rs))
		if err != nil {
			panic(err)
		}
		s.SetColumns([]string{"k", "v"})
		s.PK = []uint32{0}
		for _, r := range rows {
			if err := s.AddRow(r); err != nil {
				panic(err)
			}
		}
		return s
	}
	refDB := stores.NewMemStore()
	rsrt := mk()
	want, err := ingest.NewInserter(refDB, rsrt, logr.Discard(), ingest.WithNumWorkers(1)).IngestTableFromSorter([]string{"k", "v"}, []uint32{0})
	rsrt.Close()
	if err != nil {
		panic(err)
	}
	desc := fmt.Sprintf("sorter -> ingest: 8 rows (one duplicate key), %d workers, spill=%v, spilled chunk truncated=%v", workers, spill, corrupt)
	c.Logf("%s", desc)
	setRoot(desc)
	db := stores.NewMemStore()
	srt := mk()
	defer srt.Close()
	if corrupt {
		files, _ := filepath.Glob(filepath.Join(os.TempDir(), "sorted_chunk_*"))
		if len(files) == 0 {
			panic("mc: no spilled chunk found to truncate")
		}
		for _, f := range files {
			if st, err := os.Stat(f); err == nil && st.Size() > 1 {
				os.Truncate(f, st.Size()-1)
			}
		}
	}
	var got []byte
	var gerr error
	s := schedule(c, func() {
		got, gerr = ingest.NewInserter(db, srt, logr.Discard(), ingest.WithNumWorkers(workers+2)).IngestTableFromSorter([]string{"k", "v"}, []uint32{0})
	})
	if schedFail(c, s, desc) {
		return
	}
	if corrupt {
		if gerr == nil {
			c.Fail("error-lost", "the sorter could not read its spilled chunk back, yet ingest reported no error; %s", desc)
			return
		}
		c.Outcome("error-reported")
		c.Nontrivial(desc)
		return
	}
	if gerr != nil {
		c.Fail("pipeline-error", "ingest failed: %v; %s", gerr, desc)
		return
	}
	if !bytes.Equal(got, want) {
		c.Fail("result-differs", "table %x under this schedule, %x with one worker; %s", got, want, desc)
		return
	}
	c.Outcome(fmt.Sprintf("ok-threads%d", s.MaxThread))
	c.Nontrivial(desc)
	if c.WantSample() {
		c.Sample(map[string]any{"case": desc, "scheduling_steps": s.Steps})
	}
}

// H4: differ goroutine + consumer
func c16Diff(c *mc.Ctx) {
	needSched()
	m1 := []int{0b0010111, 0b1110000, 0b0000000}[c.Choose(3)]
	m2 := []int{0b0111010, 0b0000111, 0b0010111}[c.Choose(3)]
	failGet := c.Choose(4) // the k-th Get of the store fails (0 = none)
	c.Shard()
	t1 := storeTable([]string{"k", "v"}, []int{0}, c04rows(m1, 0, 0))
	t2 := storeTable([]string{"k", "v"}, []int{0}, c04rows(m2, m1&m2&0b0010010, 0))
	desc := fmt.Sprintf("diff: first=%s second=%s, store Get #%d fails (0 = none)", shortRows(t1.rows), shortRows(t2.rows), failGet)
	c.Logf("%s", desc)
	setRoot(desc)
	// sequential reference (native)
	refErr := make(chan error, 4)
	var want []string
	rch, _ := diff.DiffTables(tableCacheDB, tableCacheDB, t1.tbl, t2.tbl, t1.idx, t2.idx, refErr, logr.Discard())
	for d := range rch {
		want = append(want, fmt.Sprintf("%x|%x|%x|%d|%d", d.PK, d.Sum, d.OldSum, d.Offset, d.OldOffset))
	}
	sort.Strings(want)
	db := tableCacheDB.Snapshot()
	db.FailGetAt = failGet
	var got []string
	var gerr error
	s := schedule(c, func() {
		errCh := make(chan error, 4)
		ch, _ := diff.DiffTables(db, db, t1.tbl, t2.tbl, t1.idx, t2.idx, errCh, logr.Discard())
		for {
			d, ok := verifrt.Recv(ch)
			if !ok {
				break
			}
			got = append(got, fmt.Sprintf("%x|%x|%x|%d|%d", d.PK, d.Sum, d.OldSum, d.Offset, d.OldOffset))
		}
		verifrt.Close(errCh)
		if e, ok := verifrt.Recv(errCh); ok {
			gerr = e
		}
	})
	if schedFail(c, s, desc) {
		return
	}
	if db.Injected > 0 {
		if gerr == nil {
			c.Fail("error-lost", "a store error in the differ was not reported; %s", desc)
			return
		}
		c.Outcome("error-reported")
		c.Nontrivial(desc)
		return
	}
	sort.Strings(got)
	if gerr != nil || fmt.Sprint(got) != fmt.Sprint(want) {
		c.Fail("result-differs", "diff events under this schedule %v (err %v), sequential %v; %s", got, gerr, want, desc)
		return
	}
	c.Outcome(fmt.Sprintf("ok-events%d", len(got)))
	c.Nontrivial(desc)
	if c.WantSample() && len(got) > 2 {
		c.Sample(map[string]any{"case": desc, "scheduling_steps": s.Steps})
	}
}

// H5: merger (two differ goroutines, reflect.Select loop, collector goroutine) + consumer
func c16Merge(c *mc.Ctx) { c16MergeWith(c, true, false) }

func c16MergePreempt(c *mc.Ctx) { c16MergeWith(c, false, false) }

// c16MergeFaults: the merger with a store whose k-th read fails once, or whose every read from the
// k-th on fails (several workers fail): the caller must get an error, never a hang
func c16MergeFaults(c *mc.Ctx) { c16MergeWith(c, true, true) }

var c16mergeDB *stores.Overlay

func c16MergeWith(c *mc.Ctx, delay, faults bool) {
	needSched()
	variant := c.Choose(3)
	failAt, failFrom := 0, 0
	if faults {
		k := 1 + c.Choose(14)
		if c.Choose(2) == 0 {
			failAt = k
		} else {
			failFrom = k
		}
	}
	base := &ltable{cols: []string{"k", "c1", "c2"}, pk: "k", rows: []map[string]string{{"k": "a", "c1": "x", "c2": "y"}, {"k": "b", "c1": "x", "c2": "y"}}}
	x := &ltable{cols: base.cols, pk: "k", rows: []map[string]string{{"k": "a", "c1": "p", "c2": "y"}, {"k": "b", "c1": "x", "c2": "y"}}}
	y := &ltable{cols: base.cols, pk: "k", rows: []map[string]string{{"k": "a", "c1": "x", "c2": "y"}, {"k": "b", "c1": "x", "c2": "q"}}}
	switch variant {
	case 1: // a conflict on key a, an addition in the other branch
		y = &ltable{cols: base.cols, pk: "k", rows: []map[string]string{{"k": "a", "c1": "q", "c2": "y"}, {"k": "b", "c1": "x", "c2": "y"}, {"k": "c", "c1": "n", "c2": "n"}}}
	case 2: // removal vs no change
		y = &ltable{cols: base.cols, pk: "k", rows: []map[string]string{{"k": "a", "c1": "x", "c2": "y"}}}
	}
	bst, xst, yst := base.store(), x.store(), y.store()
	desc := fmt.Sprintf("merge variant %d: base=%s X=%s Y=%s", variant, base, x, y)
	if faults {
		desc += fmt.Sprintf("; store read #%d fails (once=%v, from then on=%v)", failAt+failFrom, failAt > 0, failFrom > 0)
	}
	c.Logf("%s", desc)
	setRoot(desc)
	// native reference, once per configuration (natively the merger busy-waits in reflect.Select on
	// an already closed diff channel, which is slow under GOMAXPROCS=1)
	want := c16mergeRef[variant]
	if want == nil {
		var err error
		want, err = runMerge(bst, []*storedTable{xst, yst}, false)
		if err != nil {
			panic(err)
		}
		c16mergeRef[variant] = want
	}
	var got *mergeOutcome
	var gerr error
	c16delayBound = delay
	defer func() { c16delayBound = false }()
	s := scheduleDeep(c, 5, func() { got, gerr = runMergeSched(bst, []*storedTable{xst, yst}, failAt, failFrom) })
	if schedFail(c, s, desc) {
		return
	}
	if faults && c16mergeDB != nil && c16mergeDB.Injected > 0 {
		if gerr == nil {
			c.Fail("error-lost", "a store error inside the merger was not reported to the caller; %s", desc)
			return
		}
		c.Outcome("error-reported")
		c.Nontrivial(desc)
		return
	}
	if gerr != nil {
		c.Fail("pipeline-error", "merge failed: %v; %s", gerr, desc)
		return
	}
	if fmt.Sprint(got.conflicts) != fmt.Sprint(want.conflicts) || fmt.Sprint(rowSetByName(got.cols, got.rows)) != fmt.Sprint(rowSetByName(want.cols, want.rows)) {
		c.Fail("result-differs", "merge under this schedule: rows %v conflicts %v; sequential: rows %v conflicts %v; %s", got.rows, got.conflicts, want.rows, want.conflicts, desc)
		return
	}
	c.Outcome(fmt.Sprintf("ok-rows%d-conflicts%d", len(got.rows), len(got.conflicts)))
	c.Nontrivial(desc)
	if c.WantSample() {
		c.Sample(map[string]any{"case": desc, "scheduling_steps": s.Steps, "threads": s.MaxThread})
	}
}

var c16mergeRef = map[int]*mergeOutcome{}

// runMergeSched is runMerge's row path with the consumer side going through the shims.
func runMergeSched(base *storedTable, others []*storedTable, failGetAt, failGetFrom int) (*mergeOutcome, error) {
	db := stores.NewOverlay(tableCacheDB)
	db.FailGetAt, db.FailGetFrom = failGetAt, failGetFrom
	c16mergeDB = db
	tbls := []*objects.Table{base.tbl}
	var otherTs []*objects.Table
	var otherSums [][]byte
	for _, o := range others {
		tbls = append(tbls, o.tbl)
		otherTs = append(otherTs, o.tbl)
		otherSums = append(otherSums, o.sum)
	}
	buf, err := diff.BlockBufferWithSingleStore(db, tbls)
	if err != nil {
		return nil, err
	}
	collector, cleanup, err := merge.CreateRowCollector(db, base.tbl)
	if err != nil {
		return nil, err
	}
	defer cleanup()
	merger, err := merge.NewMerger(db, collector, buf, 65*time.Millisecond, base.tbl, otherTs, base.sum, otherSums, logr.Discard())
	if err != nil {
		return nil, err
	}
	mch, err := merger.Start()
	if err != nil {
		return nil, err
	}
	out := &mergeOutcome{db: db}
	var cd *diff.ColDiff
	var pending []*merge.Merge
	for {
		m, ok := verifrt.Recv(mch)
		if !ok {
			break
		}
		if m.ColDiff != nil {
			cd = m.ColDiff
			continue
		}
		pending = append(pending, m)
	}
	// as the CLI does: drain the channel, then discard the conflicts
	for _, m := range pending {
		out.conflicts = append(out.conflicts, fmt.Sprintf("%x", m.PK))
		if err := merger.SaveResolvedRow(m.PK, nil); err != nil {
			return nil, err
		}
	}
	if err := merger.Error(); err != nil {
		return nil, err
	}
	sort.Strings(out.conflicts)
	removed := map[int]struct{}{}
	for _, l := range cd.Removed {
		for col := range l {
			removed[int(col)] = struct{}{}
		}
	}
	out.cols = merger.Columns(removed)
	rc, err := merger.SortedRows(context.Background(), removed)
	if err != nil {
		return nil, err
	}
	for {
		blk, ok := verifrt.Recv(rc)
		if !ok {
			break
		}
		for _, r := range blk.Rows {
			out.rows = append(out.rows, append([]string{}, r...))
		}
	}
	if err := merger.Error(); err != nil {
		return nil, err
	}
	return out, nil
}

// c16Bars: every short use of a progress bar the way the commands use it (created with an unknown or
// a known total, advanced, then Done or Abort, then the container is waited for) must return: a
// bar that is still running when it is waited for blocks its command forever (hangcheck overlay).
func c16Bars(c *mc.Ctx) {
	needRewrite("hangcheck:pbar")
	total := []int64{-1, 0, 1, 3}[c.Choose(4)]
	nops := c.Choose(4)
	type op struct{ kind, arg int }
	ops := make([]op, nops)
	for i := range ops {
		ops[i].kind = c.Choose(4) // Incr, IncrBy(2), SetCurrent(arg), SetTotal(arg)
		if ops[i].kind >= 2 {
			ops[i].arg = c.Choose(5)
		}
	}
	abort := c.Choose(2) == 1
	c.Shard()
	desc := fmt.Sprintf("progress bar: NewBar(total=%d) ops=%v then %s, then Container.Wait", total, ops, map[bool]string{false: "Done", true: "Abort"}[abort])
	c.Logf("%s", desc)
	p, st := mc.Try(func() {
		bars := pbar.NewContainer(io.Discard, false)
		b := bars.NewBar(total, "bar", 0)
		for _, o := range ops {
			switch o.kind {
			case 0:
				b.Incr()
			case 1:
				b.IncrBy(2)
			case 2:
				b.SetCurrent(int64(o.arg))
			case 3:
				b.SetTotal(int64(o.arg))
			}
		}
		if abort {
			b.Abort()
		} else {
			b.Done()
		}
		bars.Wait()
	})
	if p != nil {
		if he, ok := p.(verifrt.HangError); ok {
			c.Fail("hang", "%v; %s", he, desc)
			return
		}
		c.Fail("panic", "progress bar panicked: %v; %s\n%s", p, desc, firstLinesOf(st, 8))
		return
	}
	c.Outcome(fmt.Sprintf("returned-total%d-abort=%v", total, abort))
	c.Nontrivial(desc)
}

// c16Race: every harness configuration above, free-running under the Go race detector, several
// repetitions each. A race report ends the worker process (GORACE=halt_on_error) and is reported
// as class crash:free-running:data-race.
func c16Race(c *mc.Ctx) {
	pipeline := c.Choose(7)
	reps := 6
	if c.Thorough() {
		reps = 40
	}
	c.Choose(reps) // repetition index
	c16free = true
	defer func() { c16free = false }()
	switch pipeline {
	case 0:
		c16IngestPool(c, 2)
	case 1:
		c16IngestPool(c, 3)
	case 2:
		c16IngestPool(c, 4)
	case 3:
		c16SorterIngest(c)
	case 4:
		c16Diff(c)
	case 5:
		c16MergeWith(c, true, false)
	case 6:
		c16Progress(c)
	}
}

// c16Progress: the progress trackers that DiffTables and Merger.Start hand to their callers, driven the way
// the commands drive them (collectDiffObjects, writeRowChanges, collectMergeConflicts): a loop selecting over
// {progress events, work channel} that is left when the work channel is closed, then Stop. The ticker is an
// environment thread that ticks at moments the explorer chooses (1..2 ticks); a producer updates the tracker
// and feeds 0..2 work items. Every schedule must let the caller return from Stop.
func c16Progress(c *mc.Ctx) {
	needRewrite("sched:pkg/progress/progress.go")
	joined := c.Choose(2) == 1
	ticks := 1 + c.Choose(2)
	items := c.Choose(3)
	if c16free {
		// free-running race pass: real 1 ms ticks must fall among the producer's updates
		items = 60000 * (1 + items)
	}
	c.Shard()
	desc := fmt.Sprintf("progress tracker (joined=%v), %d tick(s), producer feeding %d work item(s), consumer leaves its loop when the work channel closes and calls Stop", joined, ticks, items)
	c.Logf("%s", desc)
	setRoot(desc)
	verifrt.TickerTicks = ticks
	defer func() { verifrt.TickerTicks = 2 }()
	stopped := false
	var events []progress.Event
	s := schedule(c, func() {
		st := progress.NewSingleTracker(time.Millisecond, int64(items))
		var tr progress.Tracker = st
		if joined {
			tr = progress.JoinTrackers(st, progress.NewSingleTracker(time.Millisecond, 5))
		}
		evCh := tr.Start()
		work := make(chan int)
		verifrt.Go(func() {
			for i := 0; i < items; i++ {
				st.Add(1)
				verifrt.Send(work, i)
			}
			verifrt.Close(work)
		})
		for {
			sel, v, ok := verifrt.ReflectSelect([]reflect.SelectCase{
				{Dir: reflect.SelectRecv, Chan: reflect.ValueOf(evCh)},
				{Dir: reflect.SelectRecv, Chan: reflect.ValueOf(work)},
			})
			if sel == 1 && !ok {
				break
			}
			if sel == 0 && ok {
				events = append(events, v.Interface().(progress.Event))
			}
		}
		tr.Stop()
		stopped = true
	})
	if schedFail(c, s, desc) {
		return
	}
	if c16free {
		return
	}
	if !stopped {
		c.Fail("deadlock", "the consumer never returned from Stop; %s", desc)
		return
	}
	wantTotal := int64(items)
	if joined {
		wantTotal += 5
	}
	for _, e := range events {
		if e.Total != wantTotal || e.Progress < 0 || e.Progress > int64(items) {
			c.Fail("result-differs", "progress event %+v outside what the producer did (total %d, at most %d done); %s", e, wantTotal, items, desc)
			return
		}
	}
	c.Outcome(fmt.Sprintf("stopped-events%d", len(events)))
	c.Nontrivial(desc)
	if c.WantSample() && len(events) > 0 {
		c.Sample(map[string]any{"case": desc, "events": len(events), "scheduling_steps": s.Steps})
	}
}

func init() {
	sched := func(name string, body func(*mc.Ctx), q, t int) *mc.Harness {
		return &mc.Harness{Name: name, Variant: "sched", Body: body, Procs: 1, DevBound: map[string]int{"quick": q, "thorough": t},
			Budget: map[string]time.Duration{"quick": 45 * time.Second, "thorough": 12 * time.Minute}}
	}
	register(&mc.Check{
		ID:    "C16",
		Level: "model_checking",
		Rule: "stateless schedule exploration (DFS over scheduler decisions with iterative preemption bounding) of the REAL pipeline code under a cooperative scheduler: every go statement, channel send / receive / range / close, reflect.Select, WaitGroup operation and Mutex lock AND unlock of inserter.go, sorter.go, diff.go, merger.go, row_collector.go is rewritten at build time into a scheduling point; channel contents live in the scheduler. " +
			"Harnesses: ingest worker pool (2..3 blocks of 3 rows, 2..3 workers, block channel capacity 0/1/10, each object-store write failing in turn, once or from then on); sorter producer -> inserter with and without a spilled chunk, and with a spilled chunk that cannot be read back (truncated); differ + consumer (with failing store reads); merger (two differs, select loop, collector) + consumer for three merge shapes - five threads over unbuffered channels, explored with DELAY bounding (every departure from the deterministic default schedule counts) instead of preemption bounding; the same merger over a store whose k-th read fails once, or whose every read from the k-th on fails (k = 1..14). " +
			"Every complete schedule within the preemption bound must end (no deadlock / livelock within the horizon), have no send on closed / double close, no happens-before data race on the inserter's shared fields (vector clocks), return the 1-worker sequential result, and report an injected store error to the caller. " +
			"Progress trackers (pkg/progress, handed out by DiffTables and Merger.Start): tracker goroutine + ticker (an environment thread delivering 1..2 ticks at moments the explorer chooses) + producer + a consumer that selects over {events, work}, leaves when the work channel closes and calls Stop, single and joined trackers, preemption bound 2 (thorough 4): the consumer must return from Stop in every schedule. " +
			"Progress bars (pkg/pbar, used by commit and merge): every sequence of up to 3 operations {Incr, IncrBy, SetCurrent(0..4), SetTotal(0..4)} on a bar created with total {-1,0,1,3}, ended by Done or Abort and Container.Wait, must return - a build-time hang check turns waiting for a bar that is still running into a reported hang instead of blocking. " +
			"Cross-check (harness race-detector-free-running, NOT an enumeration of schedules): the same harness bodies, with 2..4 workers and up to 9 blocks, run without the scheduler in a binary compiled with the Go race detector, 6 (thorough 40) repetitions per configuration; any race report is a violation - this covers unsynchronised accesses the cooperative scheduler cannot see. " +
			"states = distinct (harness, configuration) roots; transitions = scheduling steps; traces_validated_against_impl = complete schedules, all executed on the implementation",
		Assumptions: []string{
			"sequential consistency at the granularity of the rewritten operations; the hardware memory model below that is not modelled",
			"the race detector covers the annotated shared fields of the inserter (rowsCount, asyncBlocks); other unsynchronised accesses are looked for by a free-running -race cross-check, not by the explorer",
			"progress-bar tickers, the progress-bar library's and Badger's own goroutines are outside the scheduler (scheduled harnesses use no progress bar and the in-memory store; bars are attached in the free-running race pass and checked sequentially by progress-bar-protocol)",
			"<= 3 workers, <= 3 blocks, preemption bound as reported",
		},
		Harnesses: []*mc.Harness{
			sched("ingest-pool-2-workers", c16IngestPool2, 2, 3),
			sched("ingest-pool-3-workers", c16IngestPool3, 1, 2),
			sched("sorter-ingest", c16SorterIngest, 2, 3),
			sched("differ", c16Diff, 2, 3),
			sched("merger-delay-bounded", c16Merge, 3, 5),
			sched("merger-store-faults", c16MergeFaults, 1, 3),
			sched("progress-trackers", c16Progress, 2, 4),
			{Name: "progress-bar-protocol", Variant: "sched", Body: c16Bars, Procs: 2,
				Budget: map[string]time.Duration{"quick": 45 * time.Second, "thorough": 5 * time.Minute}},
			{Name: "race-detector-free-running", Variant: "race", Body: c16Race, Procs: 4,
				Budget: map[string]time.Duration{"quick": 60 * time.Second, "thorough": 10 * time.Minute}},
			{Name: "merger-preemption-bounded", Variant: "sched", OnlyTier: "thorough", Body: c16MergePreempt, Procs: 1, DevBound: map[string]int{"thorough": 0},
				Budget: map[string]time.Duration{"thorough": 10 * time.Minute}},
		},
	})
}
