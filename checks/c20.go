package checks

import (
	"bytes"
	"encoding/binary"
	"fmt"
	"github.com/pckhoi/meow"
	"os"
	"sort"
	"strings"
	"time"

	"github.com/wrgl/wrgl/pkg/index"

	"verif/mc"
	"verif/stores"
)

// C20 — the on-disk hash set answers membership exactly like a set.
//
// Explicit-state BFS over Add/Flush/Reopen sequences on the real index.HashSet, backed by an
// os.File-semantics memfile (and a real file in a second harness). After every step the
// implementation is compared with a Go map; whenever nothing is pending the raw file is
// checked for sortedness and fan-out consistency.

var c20Universe = func() [][]byte {
	mk := func(first byte, tail byte) []byte {
		h := make([]byte, 16)
		h[0] = first
		h[15] = tail
		return h
	}
	u := [][]byte{
		mk(0x00, 0), mk(0x00, 1), mk(0x01, 0), mk(0x01, 1), mk(0x01, 2),
		mk(0x7f, 5), mk(0x7f, 6), mk(0xff, 0), mk(0xff, 1),
	}
	// one that differs from a neighbour in the middle byte only
	m := mk(0x7f, 5)
	m[7] = 1
	u = append(u, m)
	return u
}()

type c20file interface {
	index.ReadWriteSeekCloser
}

// c20Exec runs one operation sequence. The last pre hashes of universe are not operations: they are
// added and flushed before the sequence starts (a populated table as the starting state).
func c20Exec(batch uint32, realFile bool, universe [][]byte, pre int, trace []int) (key, class, vio string) {
	nU := len(universe) - pre
	opFlush, opReopen, opReopenEnd := nU, nU+1, nU+2
	var mf *stores.MemFile
	var f *os.File
	var path string
	var hs *index.HashSet
	var err error
	atEnd := false
	open := func() error {
		if realFile {
			if f == nil {
				ff, e := os.CreateTemp("", "c20_")
				if e != nil {
					return e
				}
				path = ff.Name()
				f = ff
			} else {
				ff, e := os.OpenFile(path, os.O_RDWR, 0644)
				if e != nil {
					return e
				}
				if atEnd {
					ff.Seek(0, 2)
				}
				f = ff
			}
			hs, err = index.NewHashSet(f, batch)
			return err
		}
		if mf == nil {
			mf = &stores.MemFile{}
		} else if atEnd {
			mf = mf.ReopenAtEnd()
		} else {
			mf = mf.Reopen()
		}
		hs, err = index.NewHashSet(mf, batch)
		return err
	}
	if err := open(); err != nil {
		return "", "error", "open: " + err.Error()
	}
	if realFile {
		defer func() {
			f.Close()
			os.Remove(path)
		}()
	}
	raw := func() []byte {
		if realFile {
			b, _ := os.ReadFile(path)
			return b
		}
		return mf.Data
	}
	flushed := map[int]bool{}
	pending := []int{}
	if pre > 0 {
		for k := nU; k < len(universe); k++ {
			if err := hs.Add(append([]byte{}, universe[k]...)); err != nil {
				return "", "error", "prelude Add: " + err.Error()
			}
			flushed[k] = true
		}
		if err := hs.Flush(); err != nil {
			return "", "error", "prelude Flush: " + err.Error()
		}
	}
	describe := func(i int) string {
		var sb strings.Builder
		if pre > 0 {
			fmt.Fprintf(&sb, "(%d hashes %02x..%02x%02x to %02x..%02x%02x flushed first) ", pre, universe[nU][0], universe[nU][14], universe[nU][15], universe[len(universe)-1][0], universe[len(universe)-1][14], universe[len(universe)-1][15])
		}
		skipped := 0
		for j, op := range trace[:i+1] {
			if op&c20Quiet != 0 && j < i {
				skipped++
				continue
			}
			if j > 0 {
				sb.WriteString(" ")
			}
			if skipped > 0 {
				fmt.Fprintf(&sb, "(%d more additions ending with) ", skipped)
				skipped = 0
			}
			sb.WriteString(c20OpName(universe[:nU], op&^c20Quiet))
		}
		return sb.String()
	}
	for i, op := range trace {
		quiet := op&c20Quiet != 0 // an inner step of a bulk addition: executed, observed only at the end of the bulk
		op &^= c20Quiet
		switch {
		case op < nU:
			h := append([]byte{}, universe[op]...)
			if err := hs.Add(h); err != nil {
				return "", "error", fmt.Sprintf("Add returned %v after [%s] (batch=%d)", err, describe(i), batch)
			}
			// model: Add is a no-op if already stored on disk; else pending; auto flush at batch size
			if !flushed[op] {
				pending = append(pending, op)
				if len(pending) >= int(batch) {
					for _, p := range pending {
						flushed[p] = true
					}
					pending = pending[:0]
				}
			}
		case op == opFlush:
			if err := hs.Flush(); err != nil {
				return "", "error", fmt.Sprintf("Flush returned %v after [%s] (batch=%d)", err, describe(i), batch)
			}
			for _, p := range pending {
				flushed[p] = true
			}
			pending = pending[:0]
		case op == opReopen || op == opReopenEnd:
			atEnd = op == opReopenEnd
			if err := hs.Close(); err != nil {
				return "", "error", "Close: " + err.Error()
			}
			if err := open(); err != nil {
				return "", "error", fmt.Sprintf("reopen returned %v after [%s]", err, describe(i))
			}
			pending = pending[:0] // unflushed additions are not promised to survive
		}
		if quiet {
			continue
		}
		// membership: no false positive ever, no false negative for flushed members
		added := map[int]bool{}
		for k := range flushed {
			added[k] = true
		}
		for _, p := range pending {
			added[p] = true
		}
		for k, h := range universe {
			has, err := hs.Has(h)
			if err != nil {
				return "", "error", fmt.Sprintf("Has returned %v after [%s]", err, describe(i))
			}
			if has && !added[k] {
				return "", "false-positive", fmt.Sprintf("Has(%x)=true but never added; ops [%s] batch=%d", h, describe(i), batch)
			}
			if !has && flushed[k] {
				return "", "false-negative", fmt.Sprintf("Has(%x)=false but it was added and flushed; ops [%s] batch=%d", h, describe(i), batch)
			}
		}
		if len(pending) == 0 {
			if msg := c20CheckFile(raw(), universe, flushed); msg != "" {
				return "", "file-structure", fmt.Sprintf("%s; ops [%s] batch=%d", msg, describe(i), batch)
			}
		}
	}
	var kb bytes.Buffer
	kb.Write(raw())
	// how the current handle was opened is part of the state: what the implementation caches when it
	// opens the file is not visible in the file bytes
	if atEnd {
		kb.WriteByte('E')
	}
	kb.WriteByte('|')
	for _, p := range pending {
		kb.WriteByte(byte(p))
		kb.WriteByte(byte(p >> 8))
	}
	kb.WriteByte('|')
	ks := []int{}
	for k := range flushed {
		ks = append(ks, k)
	}
	sort.Ints(ks)
	for _, k := range ks {
		kb.WriteByte(byte(k))
		kb.WriteByte(byte(k >> 8))
	}
	return kb.String(), "", ""
}

// c20CheckFile checks the raw file: 256 big-endian fan-out counters, entries at offset 1024.
func c20CheckFile(b []byte, universe [][]byte, flushed map[int]bool) string {
	if len(b) == 0 {
		if len(flushed) == 0 {
			return ""
		}
		return "file empty although members were flushed"
	}
	if len(b) < 1024 {
		return fmt.Sprintf("file has %d bytes, shorter than the fan-out table", len(b))
	}
	var fan [256]uint32
	for i := range fan {
		fan[i] = binary.BigEndian.Uint32(b[4*i:])
	}
	n := int(fan[255])
	if len(b) < 1024+16*n {
		return fmt.Sprintf("fan-out says %d entries but file holds %d bytes", n, len(b))
	}
	entries := make([][]byte, n)
	for i := range entries {
		entries[i] = b[1024+16*i : 1024+16*i+16]
	}
	for i := 1; i < n; i++ {
		if bytes.Compare(entries[i-1], entries[i]) > 0 {
			return fmt.Sprintf("stored entries not sorted at %d: %x > %x", i, entries[i-1], entries[i])
		}
	}
	cnt := [256]uint32{}
	for _, e := range entries {
		cnt[e[0]]++
	}
	var run uint32
	for k := 0; k < 256; k++ {
		run += cnt[k]
		if fan[k] != run {
			return fmt.Sprintf("fan-out[%d]=%d but %d stored entries have first byte <= %d", k, fan[k], run, k)
		}
	}
	// stored set == flushed set
	have := map[string]bool{}
	for _, e := range entries {
		have[string(e)] = true
	}
	for k, h := range universe {
		if flushed[k] != have[string(h)] {
			return fmt.Sprintf("stored entries disagree with added set for %x (stored=%v added=%v)", h, have[string(h)], flushed[k])
		}
	}
	if len(have) > len(flushed) {
		return "stored entries contain a hash that was never added"
	}
	return ""
}

func c20OpName(universe [][]byte, op int) string {
	switch {
	case op < len(universe):
		h := universe[op]
		return fmt.Sprintf("Add(%02x..%02x%02x)", h[0], h[7], h[15])
	case op == len(universe):
		return "Flush"
	case op == len(universe)+1:
		return "Reopen"
	default:
		return "Reopen(handle positioned at the end)"
	}
}

// c20Preloaded: a table that already holds a contiguous run of pre entries with first byte 0x80,
// then short sequences over six hashes placed below, just below, inside, just above and above that
// run: insertions shift long runs of stored entries (block-wise moves, file growth).
func c20Preloaded(name string, batch uint32, pre int, depth map[string]int) *mc.Harness {
	mk := func(first byte, t14, t15 byte) []byte {
		h := make([]byte, 16)
		h[0], h[14], h[15] = first, t14, t15
		return h
	}
	u := [][]byte{mk(0x00, 0, 0), mk(0x7f, 0, 5), mk(0x80, 0, 0), mk(0x80, byte((2*(pre/2)+3)>>8), byte(2*(pre/2)+3)), mk(0x80, 0xff, 0xff), mk(0xff, 0, 0)}
	for i := 0; i < pre; i++ {
		v := 2*i + 2
		u = append(u, mk(0x80, byte(v>>8), byte(v)))
	}
	nOps := len(u) - pre
	spec := func(d int) *mc.BFSSpec {
		return &mc.BFSSpec{
			NumOps:   nOps + 3,
			MaxDepth: d,
			Exec:     func(tr []int) (string, string, string) { return c20Exec(batch, false, u, pre, tr) },
			OpName:   func(op int) string { return c20OpName(u[:nOps], op) },
		}
	}
	return &mc.Harness{
		Name:   name,
		Budget: map[string]time.Duration{"quick": 40 * time.Second, "thorough": 8 * time.Minute},
		InProc: func(r *mc.Run) { mc.BFS(r, spec(depth[r.Tier])) },
		ReplayTrace: func(tr []int) (string, string) {
			_, c, v := c20Exec(batch, false, u, pre, tr)
			return c, v
		},
	}
}

const c20Quiet = 1 << 20

// c20Bulk: operations are whole runs of 256..600 hashes sharing a first byte, added back to back, so that one
// flush inserts hundreds of entries below, between or above hundreds of stored ones (block-wise moves of long
// segments); plus Flush and the two reopen operations. Observed after every run, not after every single addition.
func c20Bulk(name string, batch uint32, depth map[string]int) *mc.Harness {
	type run struct {
		first byte
		n     int
	}
	runs := []run{{0x08, 256}, {0x10, 300}, {0x80, 600}, {0xf0, 257}, {0x80, 40}}
	var u [][]byte
	var start []int
	for ri, r := range runs {
		start = append(start, len(u))
		for i := 0; i < r.n; i++ {
			h := make([]byte, 16)
			h[0], h[1], h[7], h[14], h[15] = r.first, byte(ri), byte(i*7), byte(i>>8), byte(i)
			u = append(u, h)
		}
	}
	start = append(start, len(u))
	nU := len(u)
	expand := func(tr []int) []int {
		var out []int
		for _, op := range tr {
			if op < len(runs) {
				for k := start[op]; k < start[op+1]; k++ {
					o := k
					if k < start[op+1]-1 {
						o |= c20Quiet
					}
					out = append(out, o)
				}
			} else {
				out = append(out, nU+(op-len(runs)))
			}
		}
		return out
	}
	opName := func(op int) string {
		if op < len(runs) {
			return fmt.Sprintf("AddRun(%d hashes with first byte %02x)", runs[op].n, runs[op].first)
		}
		return c20OpName(u, nU+(op-len(runs)))
	}
	exec := func(tr []int) (string, string, string) {
		k, c, v := c20Exec(batch, false, u, 0, expand(tr))
		if v != "" {
			var names []string
			for _, op := range tr {
				names = append(names, opName(op))
			}
			v += "; bulk operations [" + strings.Join(names, " ; ") + "]"
		}
		if k != "" {
			sum := meow.Checksum(0, []byte(k))
			k = string(sum[:])
		}
		return k, c, v
	}
	spec := func(d int) *mc.BFSSpec {
		return &mc.BFSSpec{NumOps: len(runs) + 3, MaxDepth: d, Exec: exec, OpName: opName}
	}
	return &mc.Harness{
		Name:   name,
		Budget: map[string]time.Duration{"quick": 40 * time.Second, "thorough": 8 * time.Minute},
		InProc: func(r *mc.Run) { mc.BFS(r, spec(depth[r.Tier])) },
		ReplayTrace: func(tr []int) (string, string) {
			_, c, v := exec(tr)
			return c, v
		},
	}
}

func c20Harness(name string, batch uint32, realFile bool, nU int, depth map[string]int) *mc.Harness {
	u := c20Universe[:nU]
	if nU < len(c20Universe) {
		// keep a spread of first bytes when the universe is cut down
		u = [][]byte{c20Universe[0], c20Universe[1], c20Universe[2], c20Universe[5], c20Universe[9], c20Universe[7], c20Universe[8]}[:nU]
	}
	spec := func(d int) *mc.BFSSpec {
		return &mc.BFSSpec{
			NumOps:   len(u) + 3,
			MaxDepth: d,
			Exec:     func(tr []int) (string, string, string) { return c20Exec(batch, realFile, u, 0, tr) },
			OpName:   func(op int) string { return c20OpName(u, op) },
		}
	}
	return &mc.Harness{
		Name:   name,
		Budget: map[string]time.Duration{"quick": 40 * time.Second, "thorough": 8 * time.Minute},
		InProc: func(r *mc.Run) {
			mc.BFS(r, spec(depth[r.Tier]))
		},
		ReplayTrace: func(tr []int) (string, string) {
			_, c, v := c20Exec(batch, realFile, u, 0, tr)
			return c, v
		},
	}
}

func init() {
	register(&mc.Check{
		ID:    "C20",
		Level: "model_checking",
		Rule: "explicit-state BFS over all sequences of Add(h)/Flush/close-and-reopen (through a handle positioned at the start or at the end of the file) on the real index.HashSet, h from a 10-hash universe " +
			"(first bytes 00,01,7f,ff; equal first bytes; neighbours differing in the last or a middle byte), batch sizes 1,2,3,1024; " +
			"a state is the raw file bytes + pending batch + model set; every transition is executed on the implementation and compared with a Go map " +
			"(Has for every universe hash after every step; sortedness and fan-out of the raw file whenever nothing is pending). " +
			"plus the same search started from a table that already holds a contiguous run of 33 / 100 / 300 flushed entries, over six hashes placed below, just below, inside, just above and above that run (insertions shift long runs of stored entries). " +
			"plus (bfs-bulk-runs-*) a search whose operations are whole runs of 256 / 300 / 600 / 257 / 40 hashes sharing a first byte (08, 10, 80, f0, 80) added back to back, Flush and the reopen operations, batch sizes 1024 and 256, depth 5 / 4 (thorough 6 / 5): one flush inserts hundreds of entries below, between or above hundreds of stored ones; observed after every run. " +
			"distinct_nontrivial = distinct states reached",
		Assumptions: []string{
			"hashes outside the 10-value universe behave like universe hashes with the same first-byte / ordering relations",
			"additions that were never flushed are not promised to survive close-and-reopen",
			"HashSet.Len is not asserted (the property does not mention it)",
		},
		Harnesses: []*mc.Harness{
			c20Harness("bfs-batch1", 1, false, 10, map[string]int{"quick": 11, "thorough": 12}),
			c20Harness("bfs-batch2", 2, false, 10, map[string]int{"quick": 8, "thorough": 12}),
			c20Harness("bfs-batch3", 3, false, 10, map[string]int{"quick": 7, "thorough": 10}),
			c20Harness("bfs-batch1024", 1024, false, 10, map[string]int{"quick": 5, "thorough": 7}),
			c20Harness("bfs-u7-batch2-deep", 2, false, 7, map[string]int{"quick": 12, "thorough": 16}),
			c20Harness("bfs-u7-batch1024-deep", 1024, false, 7, map[string]int{"quick": 6, "thorough": 9}),
			c20Harness("bfs-realfile-batch2", 2, true, 7, map[string]int{"quick": 5, "thorough": 7}),
			c20Bulk("bfs-bulk-runs-batch1024", 1024, map[string]int{"quick": 5, "thorough": 6}),
			c20Bulk("bfs-bulk-runs-batch256", 256, map[string]int{"quick": 4, "thorough": 5}),
			c20Preloaded("bfs-preloaded33-batch2", 2, 33, map[string]int{"quick": 5, "thorough": 7}),
			c20Preloaded("bfs-preloaded100-batch1024", 1024, 100, map[string]int{"quick": 5, "thorough": 7}),
			c20Preloaded("bfs-preloaded300-batch3", 3, 300, map[string]int{"quick": 4, "thorough": 6}),
		},
	})
}
