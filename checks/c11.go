package checks

import (
	"errors"
	"fmt"
	"io"
	"time"

	"github.com/wrgl/wrgl/pkg/ref"

	"verif/mc"
	"verif/model"
	"verif/stores"
)

// C11 — ancestry queries and merge-base selection agree with the commit graph.

func c11Body(maxN map[string]int, allPerms map[string]bool, maxTuple map[string]int) func(c *mc.Ctx) {
	return func(c *mc.Ctx) {
		nmax := maxN[c.Tier]
		n := 1 + c.Choose(nmax)
		g := model.ChooseGraph(n, 2, c.Choose)
		if hasMerge(g) && c.Choose(2) == 1 {
			g = g.SwapMergeParents()
		}
		tas := timeAssignments(n, allPerms[c.Tier] || n <= 4)
		times := tas[c.Choose(len(tas))]
		c.Shard()
		db := stores.NewMemStore()
		sums, err := buildCommits(db, g, times, nil)
		if err != nil {
			panic(err)
		}
		anc := g.Anc()
		desc := fmt.Sprintf("graph parents=%v times=%v", g.Parents, times)
		c.Logf("%s", desc)
		nontrivial := false
		// IsAncestorOf on all ordered pairs
		for a := 0; a < n; a++ {
			for b := 0; b < n; b++ {
				got, err := ref.IsAncestorOf(db, sums[a], sums[b])
				if err != nil {
					c.Fail("ancestor", "IsAncestorOf(%d,%d) returned %v; %s", a, b, err, desc)
					continue
				}
				want := anc[b]&(1<<uint(a)) != 0
				if got != want {
					c.Fail("ancestor", "IsAncestorOf(%d,%d)=%v but reachability says %v; %s", a, b, got, want, desc)
				}
			}
		}
		// the walk from every node visits every ancestor exactly once
		for a := 0; a < n; a++ {
			q, err := ref.NewCommitsQueue(db, [][]byte{sums[a]})
			if err != nil {
				c.Fail("walk", "NewCommitsQueue(%d): %v; %s", a, err, desc)
				continue
			}
			var seen uint64
			steps := 0
			for {
				s, _, err := q.PopInsertParents()
				if errors.Is(err, io.EOF) {
					break
				}
				if err != nil {
					c.Fail("walk", "walk from %d returned %v; %s", a, err, desc)
					break
				}
				steps++
				if steps > 4*n+4 {
					c.Fail("walk", "walk from %d does not end; %s", a, desc)
					break
				}
				i := indexOfSum(sums, s)
				if i < 0 {
					c.Fail("walk", "walk from %d yielded an unknown commit; %s", a, desc)
					break
				}
				if seen&(1<<uint(i)) != 0 {
					c.Fail("walk", "walk from %d visited node %d twice; %s", a, i, desc)
				}
				seen |= 1 << uint(i)
			}
			if seen != anc[a] {
				c.Fail("walk", "walk from %d visited %v, ancestors are %v; %s", a, model.Bits(seen), model.Bits(anc[a]), desc)
			}
		}
		// merge base of every ordered tuple of 2..k commits
		kmax := maxTuple[c.Tier]
		tuple := make([]int, 0, 4)
		var rec func()
		rec = func() {
			if len(tuple) >= 2 {
				args := make([][]byte, len(tuple))
				common := ^uint64(0)
				for i, t := range tuple {
					args[i] = sums[t]
					common &= anc[t]
				}
				common &= (1 << uint(n)) - 1
				base, err := ref.SeekCommonAncestor(db, args...)
				c.Count("mergebase_queries", 1)
				switch {
				case common == 0:
					if err == nil {
						c.Fail("mergebase-spurious", "SeekCommonAncestor%v = node %d although the inputs share no ancestor; %s", tuple, indexOfSum(sums, base), desc)
					}
					c.Outcome("no-common-ancestor")
				case err != nil:
					c.Fail("mergebase-missing", "SeekCommonAncestor%v returned %q although common ancestors %v exist; %s", tuple, err, model.Bits(common), desc)
				default:
					bi := indexOfSum(sums, base)
					if bi < 0 || common&(1<<uint(bi)) == 0 {
						c.Fail("mergebase-not-common", "SeekCommonAncestor%v = node %d which is not an ancestor-or-self of every input (common ancestors: %v); %s", tuple, bi, model.Bits(common), desc)
					} else {
						inputIsBase := -1
						for _, t := range tuple {
							if common&(1<<uint(t)) != 0 {
								inputIsBase = t
							}
						}
						if inputIsBase >= 0 {
							nontrivial = true
							if bi != inputIsBase {
								c.Fail("mergebase-not-input", "SeekCommonAncestor%v = node %d although input %d is an ancestor of all the others; %s", tuple, bi, inputIsBase, desc)
							}
							c.Outcome("base-is-input")
						} else {
							nontrivial = true
							c.Outcome("base-is-proper-ancestor")
						}
					}
				}
			}
			if len(tuple) == kmax {
				return
			}
			for t := 0; t < n; t++ {
				tuple = append(tuple, t)
				rec()
				tuple = tuple[:len(tuple)-1]
			}
		}
		rec()
		if nontrivial && n >= 3 {
			c.Nontrivial(desc)
		}
		if c.WantSample() && n >= 4 {
			c.Sample(map[string]any{"parents": g.Parents, "times": times, "queries": "IsAncestorOf on all pairs, walk from every node, SeekCommonAncestor on all 2..k tuples"})
		}
	}
}

// c11Wide: histories whose walk frontier is about a thousand commits wide: a head with W parents (W around 1024),
// each a merge of two roots of its own, under three time assignments (roots oldest / roots in the middle of the
// range / everything equal). Oracle without bitmasks: the walk from the head yields every commit exactly once;
// every root and every middle commit is an ancestor of the head, no middle commit is an ancestor of another;
// the merge base of two middle commits does not exist, of a middle commit and the head it is the middle commit.
func c11Wide(c *mc.Ctx) {
	W := []int{600, 1023, 1024, 1025, 1500}[c.Choose(5)]
	timeMode := c.Choose(3)
	c.Shard()
	n := 3*W + 1
	g := &model.Graph{Parents: make([][]int, n)}
	times := make([]int, n)
	var headParents []int
	for i := 0; i < W; i++ {
		g.Parents[2*i], g.Parents[2*i+1] = []int{}, []int{}
		mid := 2*W + i
		g.Parents[mid] = []int{2 * i, 2*i + 1}
		headParents = append(headParents, mid)
		switch timeMode {
		case 0: // topological
			times[2*i], times[2*i+1], times[mid] = i, i, W+i
		case 1: // skewed clocks: a middle commit's roots carry times in the middle of the middle commits' range
			times[mid] = W + i
			times[2*i], times[2*i+1] = W+(i*7)%W, W+(i*13+5)%W
		default:
			times[2*i], times[2*i+1], times[mid] = 1, 1, 1
		}
	}
	g.Parents[3*W] = headParents
	times[3*W] = 3 * W
	if timeMode == 2 {
		times[3*W] = 1
	}
	db := stores.NewMemStore()
	sums, err := buildCommits(db, g, times, nil)
	if err != nil {
		panic(err)
	}
	desc := fmt.Sprintf("head with %d parents, each a merge of two roots of its own (%d commits); time assignment %d (0 topological, 1 roots inside the middle commits' range, 2 all equal)", W, n, timeMode)
	c.Logf("%s", desc)
	idx := make(map[string]int, n)
	for i, s := range sums {
		idx[string(s)] = i
	}
	q, err := ref.NewCommitsQueue(db, [][]byte{sums[3*W]})
	if err != nil {
		c.Fail("walk", "NewCommitsQueue: %v; %s", err, desc)
		return
	}
	visits := make([]int, n)
	steps := 0
	for {
		s, _, err := q.PopInsertParents()
		if errors.Is(err, io.EOF) {
			break
		}
		if err != nil {
			c.Fail("walk", "walk from the head returned %v after %d commits; %s", err, steps, desc)
			return
		}
		steps++
		if steps > 4*n {
			c.Fail("walk", "walk from the head does not end (%d steps for %d commits); %s", steps, n, desc)
			return
		}
		i, ok := idx[string(s)]
		if !ok {
			c.Fail("walk", "walk from the head yielded an unknown commit; %s", desc)
			return
		}
		visits[i]++
	}
	missing, twice := 0, 0
	for _, v := range visits {
		if v == 0 {
			missing++
		} else if v > 1 {
			twice++
		}
	}
	if missing > 0 || twice > 0 {
		c.Fail("walk", "walk from the head: %d ancestors never visited, %d visited more than once (every one of %d exactly once expected); %s", missing, twice, n, desc)
		return
	}
	probe := []int{0, 1, W / 2, W - 2, W - 1}
	for _, i := range probe {
		for _, a := range []int{2 * i, 2*i + 1, 2*W + i} {
			ok, err := ref.IsAncestorOf(db, sums[a], sums[3*W])
			if err != nil || !ok {
				c.Fail("ancestor", "IsAncestorOf(node %d, head)=%v (err %v) although it is reachable; %s", a, ok, err, desc)
				return
			}
		}
		j := probe[(i+1)%len(probe)]
		if i != j {
			if ok, err := ref.IsAncestorOf(db, sums[2*W+i], sums[2*W+j]); err != nil || ok {
				c.Fail("ancestor", "IsAncestorOf(middle %d, middle %d)=%v (err %v) although they are unrelated; %s", i, j, ok, err, desc)
				return
			}
			if base, err := ref.SeekCommonAncestor(db, sums[2*W+i], sums[2*W+j]); err == nil {
				c.Fail("mergebase-spurious", "SeekCommonAncestor(middle %d, middle %d) = node %d although they share no ancestor; %s", i, j, idx[string(base)], desc)
				return
			}
		}
		base, err := ref.SeekCommonAncestor(db, sums[3*W], sums[2*W+i])
		if err != nil || idx[string(base)] != 2*W+i {
			c.Fail("mergebase-not-input", "SeekCommonAncestor(head, middle %d) = %v (err %v), the middle commit itself expected; %s", i, idx[string(base)], err, desc)
			return
		}
	}
	c.Outcome(fmt.Sprintf("walked-all-timemode%d", timeMode))
	c.Nontrivial(desc)
	if c.WantSample() && timeMode == 1 {
		c.Sample(map[string]any{"case": desc, "commits_walked": steps})
	}
}

func init() {
	register(&mc.Check{
		ID:    "C11",
		Level: "exploration",
		Rule: "every commit DAG with 1..n nodes (node i picks <=2 parents among 0..i-1, merge parents in both orders: merges, several roots) x timestamp vectors (all n! permutations of distinct times incl. reversed, all equal, pairwise equal) " +
			"stored as real commit objects; on each: IsAncestorOf for all n^2 ordered pairs, the PopInsertParents walk from every node, SeekCommonAncestor on every ordered tuple of 2..k (not necessarily distinct) commits, " +
			"all compared with bitmask reachability. n<=4,k<=3 quick; n<=5 (all 120 permutations), k<=4 thorough. A case is non-trivial (and counted distinct by graph+times) when n>=3 and some tuple has a common ancestor. " +
			"Plus (wide-frontiers) a head with 600 / 1023 / 1024 / 1025 / 1500 parents, each a merge of two roots of its own, under three time assignments (topological, roots inside the middle commits' range, all equal): the walk from the head yields each of the 3W+1 commits exactly once; ancestry and merge-base probes on five middle commits",
		Assumptions: []string{"graphs beyond 5 nodes and more than 2 parents per commit are not enumerated", "commit times have one-second resolution (the format's)"},
		Harnesses: []*mc.Harness{
			{
				Name:   "dags",
				Body:   c11Body(map[string]int{"quick": 4, "thorough": 5}, map[string]bool{"quick": false, "thorough": true}, map[string]int{"quick": 3, "thorough": 4}),
				Budget: map[string]time.Duration{"quick": 60 * time.Second, "thorough": 12 * time.Minute},
			},
			{Name: "wide-frontiers", Body: c11Wide, Budget: map[string]time.Duration{"quick": 60 * time.Second, "thorough": 5 * time.Minute}},
		},
	})
}
