package checks

import (
	"bytes"
	"encoding/csv"
	"fmt"
	"io"
	"os"
	"path/filepath"
	"strings"
	"time"

	"github.com/go-logr/logr"
	"github.com/wrgl/wrgl/pkg/diff"
	"github.com/wrgl/wrgl/pkg/objects"
	"github.com/wrgl/wrgl/pkg/verifrt"

	"verif/mc"
	"verif/model"
	"verif/stores"
)

// C04 — diff reports exactly the rows added, removed and modified between two tables.

type storedTable struct {
	sum  []byte
	tbl  *objects.Table
	idx  [][]string
	rows [][]string // in stored order
	db   objects.Store
}

var tableCache = map[string]*storedTable{}
var tableCacheDB = stores.NewMemStore()

// storeTable ingests rows (through the real ingest) once per process and caches the result.
func storeTable(cols []string, pk []int, rows [][]string) *storedTable {
	key := fmt.Sprintf("%q|%v|%q", cols, pk, rows)
	if len(rows) > 16 {
		key = fmt.Sprintf("%q|%v|%d|%x", cols, pk, len(rows), model.Hash([]byte(fmt.Sprintf("%q", rows))))
	}
	if t, ok := tableCache[key]; ok {
		return t
	}
	k := &ingestCfg{cols: cols, pk: pk, rows: rows, workers: 1, delim: ','}
	sum, err := ingestOnce(tableCacheDB, k, csvBytes(cols, rows, ','))
	if err != nil {
		panic(fmt.Sprintf("mc: fixture ingest failed: %v", err))
	}
	tbl, err := objects.GetTable(tableCacheDB, sum)
	if err != nil {
		panic(err)
	}
	idx, err := objects.GetTableIndex(tableCacheDB, sum)
	if err != nil {
		panic(err)
	}
	st, err := model.TableRows(tableCacheDB, tbl)
	if err != nil {
		panic(err)
	}
	t := &storedTable{sum: sum, tbl: tbl, idx: idx, rows: st, db: tableCacheDB}
	tableCache[key] = t
	return t
}

type diffEvent struct {
	kind   string // added | removed | modified
	keyStr string
}

// runDiff drains DiffTables(t1, t2) and checks it against the set model. B is the block size in force.
func checkDiff(c *mc.Ctx, t1, t2 *storedTable, pk []int, desc string) (events int, ok bool) {
	errCh := make(chan error, 8)
	ch, _ := diff.DiffTables(t1.db, t2.db, t1.tbl, t2.tbl, t1.idx, t2.idx, errCh, logr.Discard())
	var got []*objects.Diff
	for d := range ch {
		got = append(got, d)
		if len(got) > 4*(len(t1.rows)+len(t2.rows))+16 {
			c.Fail("diff-flood", "diff keeps emitting events (%d so far for tables of %d and %d rows); %s", len(got), len(t1.rows), len(t2.rows), desc)
			return len(got), false
		}
	}
	select {
	case err := <-errCh:
		c.Fail("diff-error", "diff reported an error: %v; %s", err, desc)
		return 0, false
	default:
	}
	// model
	byKey1 := map[string][]string{}
	byKey2 := map[string][]string{}
	for _, r := range t1.rows {
		byKey1[model.KeyString(model.Key(r, pk))] = r
	}
	for _, r := range t2.rows {
		byKey2[model.KeyString(model.Key(r, pk))] = r
	}
	want := map[string]string{} // keyhash -> kind
	keyOf := map[string][]string{}
	hashKey := func(r []string) string {
		if len(pk) == 0 {
			return string(model.Hash(model.EncodeStrList(r)))
		}
		return string(model.Hash(model.EncodeStrList(model.Key(r, pk))))
	}
	for ks, r := range byKey1 {
		h := hashKey(r)
		keyOf[h] = model.Key(r, pk)
		if r2, ok := byKey2[ks]; !ok {
			want[h] = "added"
		} else if model.RowString(r) != model.RowString(r2) {
			want[h] = "modified"
		}
	}
	for ks, r := range byKey2 {
		if _, ok := byKey1[ks]; !ok {
			h := hashKey(r)
			keyOf[h] = model.Key(r, pk)
			want[h] = "removed"
		}
	}
	seen := map[string]bool{}
	rowAt := func(t *storedTable, off uint32) []string {
		blk, o := diff.RowToBlockAndOffset(off)
		pos := int(blk)*objects.BlockSize + int(o)
		if pos < 0 || pos >= len(t.rows) {
			return nil
		}
		return t.rows[pos]
	}
	for _, d := range got {
		h := string(d.PK)
		kind := "modified"
		if d.OldSum == nil {
			kind = "added"
		} else if d.Sum == nil {
			kind = "removed"
		}
		if seen[h] {
			c.Fail("diff-duplicate", "key %q reported twice; %s", keyOf[h], desc)
			return len(got), false
		}
		seen[h] = true
		w, okw := want[h]
		if !okw {
			c.Fail("diff-spurious", "diff reports %s for key hash %x (key %q), which the model does not expect (identical row or unknown key); %s", kind, d.PK, keyOf[h], desc)
			return len(got), false
		}
		if w != kind {
			c.Fail("diff-wrong-kind", "key %q reported as %s, expected %s; %s", keyOf[h], kind, w, desc)
			return len(got), false
		}
		if d.Sum != nil {
			r := rowAt(t1, d.Offset)
			if r == nil || hashKey(r) != h || !bytes.Equal(d.Sum, model.Hash(model.EncodeStrList(r))) {
				c.Fail("diff-offset", "%s event for key %q: Offset %d addresses row %q of the first table (row hash match=%v); %s", kind, keyOf[h], d.Offset, r, r != nil && bytes.Equal(d.Sum, model.Hash(model.EncodeStrList(r))), desc)
				return len(got), false
			}
		}
		if d.OldSum != nil {
			r := rowAt(t2, d.OldOffset)
			if r == nil || hashKey(r) != h || !bytes.Equal(d.OldSum, model.Hash(model.EncodeStrList(r))) {
				c.Fail("diff-offset", "%s event for key %q: OldOffset %d addresses row %q of the second table; %s", kind, keyOf[h], d.OldOffset, r, desc)
				return len(got), false
			}
		}
	}
	for h, w := range want {
		if !seen[h] {
			c.Fail("diff-missing", "no event for key %q, expected %s; %s", keyOf[h], w, desc)
			return len(got), false
		}
	}
	if !c04readers(c, t1, t2, got, desc) {
		return len(got), false
	}
	return len(got), true
}

// c04readers resolves the events the way `wrgl diff` does: added rows through a RowListReader on the first
// table, removed rows through one on the second, modified rows through a RowChangeReader; and reads both
// tables through the table reader of `wrgl preview`. Every reader is driven sequentially and by Seek in
// descending order, once with the default block buffer and once with a block buffer that holds one block
// (the memory the machine reports is an environment answer owned by the harness).
func c04readers(c *mc.Ctx, t1, t2 *storedTable, got []*objects.Diff, desc string) bool {
	needRewrite("fastmem")
	defer func() { verifrt.MemTotal, verifrt.MemAvail = 16<<30, 8<<30 }()
	for _, small := range []bool{false, true} {
		if small {
			verifrt.MemTotal, verifrt.MemAvail = 8, 2
		} else {
			verifrt.MemTotal, verifrt.MemAvail = 16<<30, 8<<30
		}
		mode := "default block buffer"
		if small {
			mode = "one-block buffer"
		}
		var added, removed *diff.RowListReader
		var changed *diff.RowChangeReader
		var wantAdded, wantRemoved [][]string
		var wantChanged [][][]string
		cd := diff.CompareColumns([2][]string{t2.tbl.Columns, t2.tbl.PrimaryKey()}, [2][]string{t1.tbl.Columns, t1.tbl.PrimaryKey()})
		rowOf := func(t *storedTable, off uint32) []string {
			if int(off) < len(t.rows) {
				return t.rows[off]
			}
			return nil
		}
		var err error
		for _, d := range got {
			switch {
			case d.OldSum == nil:
				if added == nil {
					if added, err = diff.NewRowListReader(t1.db, t1.tbl); err != nil {
						c.Fail("reader-error", "NewRowListReader: %v; %s", err, desc)
						return false
					}
				}
				added.Add(d.Offset)
				wantAdded = append(wantAdded, rowOf(t1, d.Offset))
			case d.Sum == nil:
				if removed == nil {
					if removed, err = diff.NewRowListReader(t2.db, t2.tbl); err != nil {
						c.Fail("reader-error", "NewRowListReader: %v; %s", err, desc)
						return false
					}
				}
				removed.Add(d.OldOffset)
				wantRemoved = append(wantRemoved, rowOf(t2, d.OldOffset))
			default:
				if changed == nil {
					if changed, err = diff.NewRowChangeReader(t1.db, t2.db, t1.tbl, t2.tbl, cd); err != nil {
						c.Fail("reader-error", "NewRowChangeReader: %v; %s", err, desc)
						return false
					}
				}
				changed.AddRowDiff(d)
				nr, or := rowOf(t1, d.Offset), rowOf(t2, d.OldOffset)
				// one entry per column in the column comparison's own order (key columns first): [value] or [new, old]
				var m [][]string
				for _, name := range cd.Names {
					for i, cn := range t1.tbl.Columns {
						if cn != name || i >= len(nr) || i >= len(or) {
							continue
						}
						if nr[i] == or[i] {
							m = append(m, []string{nr[i]})
						} else {
							m = append(m, []string{nr[i], or[i]})
						}
					}
				}
				wantChanged = append(wantChanged, m)
			}
		}
		type rowReader interface {
			Read() ([]string, error)
			Seek(int, int) (int, error)
			Len() int
		}
		checkList := func(name string, r rowReader, want [][]string) bool {
			if r.Len() != len(want) {
				c.Fail("reader-len", "%s reader reports %d rows, %d expected (%s); %s", name, r.Len(), len(want), mode, desc)
				return false
			}
			for i := range want {
				row, err := r.Read()
				if err != nil || model.RowString(row) != model.RowString(want[i]) {
					c.Fail("reader-row", "%s reader, sequential read #%d: %q (err %v), expected %q (%s); %s", name, i, row, err, want[i], mode, desc)
					return false
				}
			}
			if row, err := r.Read(); err != io.EOF {
				c.Fail("reader-row", "%s reader: read past the end returned %q, %v (%s); %s", name, row, err, mode, desc)
				return false
			}
			for i := len(want) - 1; i >= 0; i-- {
				if _, err := r.Seek(i, io.SeekStart); err != nil {
					c.Fail("reader-error", "%s reader Seek(%d): %v; %s", name, i, err, desc)
					return false
				}
				row, err := r.Read()
				if err != nil || model.RowString(row) != model.RowString(want[i]) {
					c.Fail("reader-row", "%s reader, Seek(%d) then Read: %q (err %v), expected %q (%s); %s", name, i, row, err, want[i], mode, desc)
					return false
				}
			}
			// first and last row alternately: with a one-block buffer every read evicts the other block
			for k := 0; k < 2 && len(want) > 1; k++ {
				for _, i := range []int{len(want) - 1, 0} {
					r.Seek(i-len(want), io.SeekEnd)
					row, err := r.Read()
					if err != nil || model.RowString(row) != model.RowString(want[i]) {
						c.Fail("reader-row", "%s reader, Seek(%d, end) then Read: %q (err %v), expected %q (%s); %s", name, i-len(want), row, err, want[i], mode, desc)
						return false
					}
				}
			}
			return true
		}
		if added != nil && !checkList("added-rows", added, wantAdded) {
			return false
		}
		if removed != nil && !checkList("removed-rows", removed, wantRemoved) {
			return false
		}
		if changed != nil {
			if changed.Len() != len(wantChanged) {
				c.Fail("reader-len", "row-change reader reports %d rows, %d expected; %s", changed.Len(), len(wantChanged), desc)
				return false
			}
			sameCols := fmt.Sprintf("%q", t1.tbl.Columns) == fmt.Sprintf("%q", t2.tbl.Columns)
			for pass := 0; pass < 2 && sameCols; pass++ {
				for j := range wantChanged {
					i := j
					var m [][]string
					var err error
					if pass == 0 {
						m, err = changed.Read()
					} else {
						i = len(wantChanged) - 1 - j
						m, err = changed.ReadAt(i)
					}
					if err != nil || fmt.Sprintf("%q", m) != fmt.Sprintf("%q", wantChanged[i]) {
						c.Fail("reader-row", "row-change reader, pass %d row #%d: %q (err %v), expected %q (%s); %s", pass, i, m, err, wantChanged[i], mode, desc)
						return false
					}
				}
			}
		}
		for ti, t := range []*storedTable{t1, t2} {
			tr, err := diff.NewTableReader(t.db, t.tbl)
			if err != nil {
				c.Fail("reader-error", "NewTableReader: %v; %s", err, desc)
				return false
			}
			if !checkList(fmt.Sprintf("table-%d", ti+1), tr, t.rows) {
				return false
			}
		}
	}
	return true
}

var c04keys = []string{"", "a", "b", "c", "d", "e", "f"}

// component-wise byte order: "" < a < "a b" < a!c < "a,b" < a- < b; any order computed on joined keys differs
var c04hostileKeys = []string{"", "a", "a b", "a!c", "a,b", "a-", "b"}

func c04rows(mask, modMask int, layout int) [][]string {
	var rows [][]string
	for i, k := range c04keys {
		if mask&(1<<uint(i)) == 0 {
			continue
		}
		v := "v" + k
		if modMask&(1<<uint(i)) != 0 {
			v = "w" + k
		}
		switch layout {
		case 1:
			rows = append(rows, []string{v, k})
		case 3: // composite key whose first component always ties
			rows = append(rows, []string{"p", k, v})
		case 4: // composite key, two groups
			g := "p"
			if i >= 4 {
				g = "q"
			}
			rows = append(rows, []string{g, k, v})
		case 5: // composite key whose first components are prefixes of one another followed by bytes around ','
			rows = append(rows, []string{c04hostileKeys[i], "s", v})
		default:
			rows = append(rows, []string{k, v})
		}
	}
	return rows
}

// scaled block size: all ordered pairs of subsets of a 7-key universe
func c04B3(c *mc.Ctx) {
	needRewrite("blocksize:block")
	needRewrite("blocksize:sorter")
	needRewrite("blocksize:table")
	m1 := c.Choose(128)
	m2 := c.Choose(128)
	layout := c.ChooseDev(6) // 0: key first; 1: key second; 2: keyless; 3,4: composite keys with tying first components; 5: composite key with prefix-related first components
	c.Shard()
	cols := []string{"k", "v"}
	pk := []int{0}
	switch layout {
	case 1:
		cols = []string{"v", "k"}
		pk = []int{1}
	case 2:
		pk = nil
	case 3, 4, 5:
		cols = []string{"g", "k", "v"}
		pk = []int{0, 1}
	}
	common := m1 & m2
	cb := model.Bits(uint64(common))
	// modification patterns over the common keys: none, each single key, all, first+last
	mods := []int{0}
	for _, b := range cb {
		mods = append(mods, 1<<uint(b))
	}
	if len(cb) >= 2 {
		mods = append(mods, common, 1<<uint(cb[0])|1<<uint(cb[len(cb)-1]))
	}
	t1 := storeTable(cols, pk, c04rows(m1, 0, layout))
	total := 0
	ok := true
	for _, mod := range mods {
		t2 := storeTable(cols, pk, c04rows(m2, mod, layout))
		desc := fmt.Sprintf("first=%s second=%s cols=%q pk=%v (block size scaled to 3)", shortRows(t1.rows), shortRows(t2.rows), cols, pk)
		n, good := checkDiff(c, t1, t2, pk, desc)
		total += n
		if !good {
			ok = false
			break
		}
	}
	c.Count("diffs", int64(len(mods)))
	c.Outcome(fmt.Sprintf("events%d-ok=%v", total/ifInt(len(mods) > 0, len(mods), 1), ok))
	if m1 != 0 && m2 != 0 && total > 0 {
		c.Nontrivial(fmt.Sprintf("%d/%d/%d", m1, m2, layout))
	}
	if c.WantSample() && len(cb) >= 2 && m1 != m2 {
		c.Sample(map[string]any{"first_keys": model.Bits(uint64(m1)), "second_keys": model.Bits(uint64(m2)), "layout": layout, "modification_patterns": len(mods)})
	}
}

// real block size: tables are unions of key segments with sizes that put keys on block edges
var c04segSizes = []int{1, 127, 128, 254, 255, 256, 1, 40}

func c04segRows(mask int, edgeMod bool, nseg int) [][]string {
	var rows [][]string
	base := 0
	for s := 0; s < nseg; s++ {
		sz := c04segSizes[s]
		if mask&(1<<uint(s)) != 0 {
			for i := 0; i < sz; i++ {
				k := fmt.Sprintf("%05d", base+i)
				v := "v"
				if edgeMod && (i == 0 || i == sz-1) {
					v = "w"
				}
				rows = append(rows, []string{k, v})
			}
		}
		base += sz + 3
	}
	return rows
}

func c04Real(c *mc.Ctx) {
	nseg := 7
	if c.Thorough() {
		nseg = 8
	}
	m1 := c.Choose(1 << uint(nseg))
	m2 := c.Choose(1 << uint(nseg))
	c.Shard()
	cols := []string{"k", "v"}
	pk := []int{0}
	t1 := storeTable(cols, pk, c04segRows(m1, false, nseg))
	ok := true
	total := 0
	for _, em := range []bool{false, true} {
		t2 := storeTable(cols, pk, c04segRows(m2, em, nseg))
		desc := fmt.Sprintf("first=segments %v (%d rows) second=segments %v (%d rows) segment sizes %v edgeRowsModified=%v", model.Bits(uint64(m1)), len(t1.rows), model.Bits(uint64(m2)), len(t2.rows), c04segSizes[:nseg], em)
		n, good := checkDiff(c, t1, t2, pk, desc)
		total += n
		if !good {
			ok = false
			break
		}
	}
	c.Count("diffs", 2)
	c.Outcome(fmt.Sprintf("blocks%d-vs-%d-ok=%v", len(t1.tbl.Blocks), (len(c04segRows(m2, false, nseg))+254)/255, ok))
	if m1 != 0 && m2 != 0 && total > 0 {
		c.Nontrivial(fmt.Sprintf("%d/%d", m1, m2))
	}
	if c.WantSample() && m1&m2 != 0 && m1 != m2 && len(t1.tbl.Blocks) >= 3 {
		c.Sample(map[string]any{"first_segments": model.Bits(uint64(m1)), "second_segments": model.Bits(uint64(m2)), "rows": []int{len(t1.rows), len(c04segRows(m2, false, nseg))}})
	}
}

// CLI: `wrgl diff --no-gui` between two branches
func c04CLI(c *mc.Ctx) {
	pairs := [][2]int{{0b0000111, 0b0011100}, {0, 0b0000011}, {0b1100000, 0}, {0b1111111, 0b1111111}, {0b0101010, 0b1010101}, {0b0000001, 0b1111111}}
	pi := c.Choose(len(pairs))
	mod := c.Choose(2)
	c.Shard()
	m1, m2 := pairs[pi][0], pairs[pi][1]
	modMask := 0
	if mod == 1 {
		modMask = m1 & m2
	}
	rows1, rows2 := c04rows(m1, 0, 0), c04rows(m2, modMask, 0)
	desc := fmt.Sprintf("branch one=%s branch two=%s", shortRows(rows1), shortRows(rows2))
	c.Logf("%s", desc)
	repo, err := newCLIRepo()
	if err != nil {
		panic("mc: cannot create CLI repository: " + err.Error())
	}
	defer repo.remove()
	cols := []string{"k", "v"}
	f1, _ := repo.writeFile("one.csv", csvBytes(cols, rows1, ','))
	f2, _ := repo.writeFile("two.csv", csvBytes(cols, rows2, ','))
	if _, err := repo.run(nil, "commit", "one", f1, "m", "-p", "k", "-n", "1"); err != nil {
		c.Fail("cli-error", "commit failed: %v; %s", err, desc)
		return
	}
	if _, err := repo.run(nil, "commit", "two", f2, "m", "-p", "k", "-n", "1"); err != nil {
		c.Fail("cli-error", "commit failed: %v; %s", err, desc)
		return
	}
	wd, _ := os.Getwd()
	os.Chdir(repo.root)
	defer os.Chdir(wd)
	var derr error
	if p, st := mc.Try(func() { _, derr = repo.run(nil, "diff", "one", "two", "--no-gui") }); p != nil {
		c.Fail("cli-panic", "wrgl diff panicked: %v; %s\n%s", p, desc, firstLinesOf(st, 8))
		return
	}
	if derr != nil {
		c.Fail("cli-error", "wrgl diff failed: %v; %s", derr, desc)
		return
	}
	files, _ := filepath.Glob(filepath.Join(repo.root, "DIFF_*.csv"))
	if len(files) != 1 {
		c.Fail("cli-error", "expected one DIFF_*.csv, found %v; %s", files, desc)
		return
	}
	b, _ := os.ReadFile(files[0])
	recs, err := csv.NewReader(bytes.NewReader(b)).ReadAll()
	if err != nil {
		r := csv.NewReader(bytes.NewReader(b))
		r.FieldsPerRecord = -1
		recs, err = r.ReadAll()
	}
	if err != nil {
		c.Fail("cli-error", "diff output does not parse: %v; %s", err, desc)
		return
	}
	got := map[string]string{}
	for _, r := range recs {
		if len(r) < 2 {
			continue
		}
		switch {
		case strings.HasPrefix(r[0], "ADDED IN"):
			got[r[1]] = "added"
		case strings.HasPrefix(r[0], "REMOVED IN"):
			got[r[1]] = "removed"
		case strings.HasPrefix(r[0], "MODIFIED IN"):
			got[r[1]] = "modified"
		}
	}
	want := map[string]string{}
	for i, k := range c04keys {
		in1, in2 := m1&(1<<uint(i)) != 0, m2&(1<<uint(i)) != 0
		switch {
		case in1 && !in2:
			want[k] = "added"
		case !in1 && in2:
			want[k] = "removed"
		case in1 && in2 && modMask&(1<<uint(i)) != 0:
			want[k] = "modified"
		}
	}
	if fmt.Sprint(got) != fmt.Sprint(want) {
		c.Fail("cli-diff", "wrgl diff --no-gui reports %v, expected %v; %s", got, want, desc)
	}
	c.Outcome(fmt.Sprintf("events%d", len(got)))
	c.Nontrivial(desc)
	if c.WantSample() {
		c.Sample(desc)
	}
}

func init() {
	register(&mc.Check{
		ID:    "C04",
		Level: "exploration",
		Rule: "scaled block size 3 (build-time overlay): ALL 16384 ordered pairs of key subsets of a 7-key universe (tables of 0..7 rows = 0..3 blocks, empty tables on either side, disjoint / interleaved / nested / identical ranges), each with modification patterns over the common keys {none, each single key, first+last, all}, key column first (default), second, no key, or a composite key whose first component ties across block boundaries or whose first components are prefixes of one another followed by bytes around ',' (deviations); " +
			"real block size: tables that are unions of key segments of sizes {1,127,128,254,255,256(,1,40)} - all 16384 (thorough 65536) ordered pairs, with and without the edge rows of every segment modified; cli: `wrgl diff --no-gui` on 12 branch pairs. " +
			"Each pair is ingested by the real ingest and diffed by the real DiffTables; the event list is compared with the set model (exactly one added / removed / modified per key, nothing for identical rows, no key twice, Offset/OldOffset resolving to the row with that key and hash, error channel empty). " +
			"evaluations = table pairs; counter diffs = DiffTables runs; non-trivial = both tables non-empty and at least one event; distinct by pair",
		Assumptions: []string{"pairs whose column lists differ are not judged (the statement is ambiguous there)", "tables beyond 4-5 real-size blocks are not enumerated"},
		Harnesses: []*mc.Harness{
			{Name: "b3-all-pairs", Variant: "b3", Body: c04B3, DevBound: map[string]int{"quick": 1, "thorough": 1}, Budget: map[string]time.Duration{"quick": 60 * time.Second, "thorough": 10 * time.Minute}},
			{Name: "real-segments", Body: c04Real, Budget: map[string]time.Duration{"quick": 60 * time.Second, "thorough": 12 * time.Minute}},
			{Name: "cli-diff", Body: c04CLI, Budget: map[string]time.Duration{"quick": 40 * time.Second, "thorough": 3 * time.Minute}},
		},
	})
}
