package checks

import (
	"bytes"
	"fmt"
	"net/http/httptest"
	"os"
	"path/filepath"
	"strings"
	"time"

	"github.com/wrgl/wrgl/pkg/objects"
	"github.com/wrgl/wrgl/pkg/ref"

	"verif/mc"
	"verif/model"
	"verif/refsrv"
	"verif/stores"
)

// C10 — without force, a ref only ever moves forward along its own history.
//
// universe: 0 root; 1 child of 0; 2 another child of 0; 3 an unrelated root; 4 child of 1;
// 5 merges 4 with the root 0, so 1 is an ancestor of 5 although 5 also has a direct edge to 1's parent
var c10graph = &model.Graph{Parents: [][]int{{}, {0}, {0}, {}, {1}, {4, 0}}}

type c10rel struct {
	name     string
	old, new int // node indices, -1 = ref absent
}

var c10rels = []c10rel{
	{"new-ref", -1, 1}, {"equal", 1, 1}, {"ahead", 0, 1}, {"far-ahead", 0, 4}, {"ahead-with-shortcut", 1, 5}, {"behind", 1, 0}, {"diverged", 1, 2}, {"unrelated", 1, 3},
}

func copyTableTo(db objects.Store, pt *poolTable) {
	for _, k := range pt.keys {
		if err := db.Set([]byte(k), tableCacheDB.Raw(k)); err != nil {
			panic(err)
		}
	}
}

func c10times(order int, n int) []int {
	t := make([]int, n)
	for i := range t {
		switch order {
		case 0:
			t[i] = i
		case 1:
			t[i] = n - i
		default:
			t[i] = 0
		}
	}
	return t
}

// latestLog returns the newest reflog entry of a ref.
func latestLog(rs ref.Store, name string) (*ref.Reflog, error) {
	r, err := rs.LogReader(name)
	if err != nil {
		return nil, err
	}
	defer r.Close()
	return r.Read()
}

func descends(anc []uint64, newN, oldN int) bool { return anc[newN]&(1<<uint(oldN)) != 0 }

// one ref of a fetch / push operation
type c10ref struct {
	rel   c10rel
	kind  int  // 0 head->remote-tracking (fetch) / head->head (push); 1 tag; 2 custom ref; 3 head->head; 4 head->tag
	force bool // '+' on its refspec
	name  string
}

func (r *c10ref) srcDst(op string) (string, string) {
	switch r.kind {
	case 1:
		return "refs/tags/" + r.name, "refs/tags/" + r.name
	case 2:
		return "refs/custom/" + r.name, "refs/custom/" + r.name
	case 3:
		return "refs/heads/" + r.name, "refs/heads/" + r.name
	case 4: // a branch stored as a tag at the destination
		return "refs/heads/" + r.name, "refs/tags/" + r.name
	}
	if op == "push" {
		return "refs/heads/" + r.name, "refs/heads/" + r.name
	}
	return "refs/heads/" + r.name, "refs/remotes/origin/" + r.name
}

func c10FetchPush(c *mc.Ctx) {
	op := []string{"fetch", "push"}[c.Choose(2)]
	// the first ref (sorts first) is enumerated completely; the second one (sorts last) comes from a
	// short list that includes refused updates, so that one ref's force or rejection can leak to the other
	r1 := &c10ref{rel: c10rels[c.Choose(len(c10rels))], kind: c.Choose(5), force: c.Choose(2) == 1, name: "a1"}
	second := []c10ref{
		{rel: c10rel{"new-ref", -1, 1}, kind: 0},
		{rel: c10rel{"diverged", 1, 2}, kind: 0},
		{rel: c10rel{"diverged", 1, 2}, kind: 0, force: true},
		{rel: c10rel{"behind", 1, 0}, kind: 1},
		{rel: c10rel{"ahead", 0, 1}, kind: 3},
	}
	r2 := second[c.Choose(len(second))]
	r2.name = "z2"
	globalForce := c.ChooseDev(2) == 1
	order := c.ChooseDev(3)
	c.Shard()
	pool := c12Pool()
	refs := []*c10ref{r1, &r2}
	desc := fmt.Sprintf("%s; ref %s: relation=%s(old=node %d,new=node %d) kind=%d '+'=%v; ref %s: relation=%s(old=node %d,new=node %d) kind=%d '+'=%v; --force=%v timeorder=%d",
		op, r1.name, r1.rel.name, r1.rel.old, r1.rel.new, r1.kind, r1.force, r2.name, r2.rel.name, r2.rel.old, r2.rel.new, r2.kind, r2.force, globalForce, order)
	c.Logf("%s", desc)
	repo, err := newCLIRepo()
	if err != nil {
		panic("mc: cannot create CLI repository: " + err.Error())
	}
	defer repo.remove()
	sdb := stores.NewMemStore()
	srs := stores.NewMapRefStore()
	for _, k := range pool[2].keys {
		sdb.PutRaw(k, tableCacheDB.Raw(k))
	}
	tables := make([][]byte, 6)
	for i := range tables {
		tables[i] = pool[2].st.sum
	}
	times := c10times(order, 6)
	// the source of the transfer holds the whole universe; the destination only what its refs reach (as a real
	// repository would), so a ref moved to a commit that was never transferred is left dangling
	full := stores.NewMemStore()
	ssums, err := buildCommits(full, c10graph, times, tables)
	if err != nil {
		panic(err)
	}
	anc0 := c10graph.Anc()
	var held uint64
	for _, r := range refs {
		if r.rel.old >= 0 {
			held |= anc0[r.rel.old]
		}
	}
	db, rs, closeFn, err := repo.open()
	if err != nil {
		panic(err)
	}
	copyTableTo(db, pool[2])
	for i, sum := range ssums {
		k := "com/" + string(sum)
		raw := full.Raw(k)
		if raw == nil {
			panic("mc: infrastructure: commit key layout changed")
		}
		srcHolds, dstHolds := true, held&(1<<uint(i)) != 0
		onServer, onClient := srcHolds, dstHolds
		if op == "push" {
			onServer, onClient = dstHolds, srcHolds
		}
		if onServer {
			sdb.PutRaw(k, raw)
		}
		if onClient {
			if err := db.Set([]byte(k), raw); err != nil {
				panic(err)
			}
		}
	}
	trim := func(s string) string { return strings.TrimPrefix(s, "refs/") }
	var args []string
	args = append(args, op, "origin")
	for _, r := range refs {
		src, dst := r.srcDst(op)
		if op == "fetch" {
			srs.Set(trim(src), ssums[r.rel.new])
			if r.rel.old >= 0 {
				ref.SaveRef(rs, trim(dst), ssums[r.rel.old], "t", "t@t", "setup", "setup", nil)
			}
		} else {
			ref.SaveRef(rs, trim(src), ssums[r.rel.new], "t", "t@t", "setup", "setup", nil)
			if r.rel.old >= 0 {
				srs.Set(trim(dst), ssums[r.rel.old])
			}
		}
		spec := src + ":" + dst
		if r.force {
			spec = "+" + spec
		}
		args = append(args, spec)
	}
	if globalForce {
		args = append(args, "--force")
	}
	closeFn()
	srv := refsrv.New(sdb, srs)
	ts := httptest.NewServer(srv)
	defer ts.Close()
	if _, err := repo.run(nil, "remote", "add", "origin", ts.URL); err != nil {
		c.Fail("cli-error", "remote add failed: %v; %s", err, desc)
		return
	}
	var out string
	var cerr error
	if p, st := mc.Try(func() { out, cerr = repo.run(nil, args...) }); p != nil {
		c.Fail("cli-panic", "wrgl %s panicked: %v; %s\n%s", op, p, desc, firstLinesOf(st, 10))
		return
	}
	c.Logf("output: %s err: %v", strings.ReplaceAll(out, "\n", " | "), cerr)
	var updated ref.Store = srs
	var ldb objects.Store
	if op == "fetch" {
		var lrs ref.Store
		var cl func()
		ldb, lrs, cl, err = repo.open()
		if err != nil {
			panic(err)
		}
		defer cl()
		updated = lrs
	}
	anc := c10graph.Anc()
	anyRefused := false
	for _, r := range refs {
		_, dst := r.srcDst(op)
		got, gerr := updated.Get(trim(dst))
		gotNode := -1
		if gerr == nil {
			gotNode = indexOfSum(ssums, got)
		}
		forced := r.force || globalForce
		isTag := r.kind == 1 || r.kind == 4 // the destination is a tag
		legal := r.rel.old < 0 || r.rel.old == r.rel.new || (!isTag && descends(anc, r.rel.new, r.rel.old))
		if legal || forced {
			if gotNode != r.rel.new {
				c.Fail("legal-update-lost", "the update of %s from node %d to node %d is %s but the ref now points to node %d (output %q, err %v); %s", dst, r.rel.old, r.rel.new,
					map[bool]string{true: "forced", false: "legal without force"}[forced && !legal], gotNode, out, cerr, desc)
				return
			}
		} else {
			anyRefused = true
			if gotNode != r.rel.old {
				c.Fail("moved-backwards", "unforced %s moved %s from node %d to node %d, which does not descend from it (tag=%v); the force of another ref or nothing at all allowed it; %s", op, dst, r.rel.old, gotNode, isTag, desc)
				return
			}
		}
		// reflog of every changed local ref carries the true old and new values
		if op == "fetch" && gotNode != r.rel.old {
			rl, err := latestLog(updated, trim(dst))
			if err != nil {
				c.Fail("reflog", "ref %s changed but has no reflog entry (%v); %s", dst, err, desc)
				return
			}
			var wantOld []byte
			if r.rel.old >= 0 {
				wantOld = ssums[r.rel.old]
			}
			if !bytes.Equal(rl.NewOID, ssums[r.rel.new]) || !(bytes.Equal(rl.OldOID, wantOld) || (wantOld == nil && len(rl.OldOID) == 0)) {
				c.Fail("reflog", "newest reflog entry of %s records old=%x new=%x, true values old=%x new=%x; %s", dst, rl.OldOID, rl.NewOID, wantOld, ssums[r.rel.new], desc)
				return
			}
		}
	}
	if anyRefused && cerr == nil && !strings.Contains(out, "rejected") {
		c.Fail("rejection-not-reported", "an update was refused but the command neither failed nor printed a rejection (output %q); %s", out, desc)
		return
	}
	if op == "fetch" {
		if msg := model.CheckRepoRefs(ldb, updated.(model.RefLister)); msg != "" {
			c.Fail("ref-dangling", "%s; %s", msg, desc)
			return
		}
	}
	// the receiving side holds the full history, with tables, of every ref of the operation (C09's clause through the CLI)
	var ddb objects.Store = sdb
	if op == "fetch" {
		ddb = ldb
	}
	for _, r := range refs {
		_, dst := r.srcDst(op)
		got, gerr := updated.Get(trim(dst))
		if gerr != nil {
			continue
		}
		n := indexOfSum(ssums, got)
		if n < 0 {
			continue
		}
		for _, a := range model.Bits(anc0[n]) {
			cm, err := objects.GetCommit(ddb, ssums[a])
			if err != nil {
				c.Fail("ref-dangling", "after the %s, %s points to node %d but its ancestor-or-self node %d is not in the receiving store (%v; output %q, err %v); %s", op, dst, n, a, err, out, cerr, desc)
				return
			}
			if !objects.TableExist(ddb, cm.Table) {
				c.Fail("ref-dangling", "after the %s, node %d reachable from %s has no table in the receiving store; %s", op, a, dst, desc)
				return
			}
		}
	}
	c.Outcome(fmt.Sprintf("%s-%s-%s-refused=%v", op, r1.rel.name, r2.rel.name, anyRefused))
	c.Nontrivial(desc)
	if c.WantSample() && anyRefused {
		c.Sample(map[string]any{"case": desc, "output": out})
	}
}

// merge / pull: a branch only moves to a descendant; ff moves exactly to the other commit
func c10Merge(c *mc.Ctx) {
	rel := []c10rel{{"equal", 1, 1}, {"ahead", 0, 1}, {"far-ahead", 0, 4}, {"ahead-with-shortcut", 1, 5}, {"behind", 1, 0}, {"diverged", 1, 2}}[c.Choose(6)]
	mode := []string{"", "--no-ff", "--ff-only"}[c.Choose(3)]
	viaPull := c.Choose(2) == 1
	order := c.ChooseDev(3)
	extra := 0 // 1: --commit-csv <resolved file>, 2: --no-gui (wrgl merge only)
	track := 0 // wrgl pull only. 1: the remote-tracking ref already exists, on the branch's commit (an earlier pull), and the refspec carries '+' as the configured default does: upstream may have been rewritten since
	if !viaPull {
		extra = c.ChooseDev(5) // 3: the branch is named through a revision expression (main^); 4: a second branch a/main exists
	} else {
		track = c.ChooseDev(2)
	}
	if extra == 3 && len(c10graph.Parents[rel.old]) == 0 {
		c.Skip() // main^ does not exist
	}
	c.Shard()
	pool := c12Pool()
	desc := fmt.Sprintf("merge relation=%s(branch=node %d, other=node %d) mode=%q viaPull=%v timeorder=%d extra=%s trackingRefFromEarlierPull=%v", rel.name, rel.old, rel.new, mode, viaPull, order, []string{"none", "--commit-csv", "--no-gui", "branch-as-main^", "decoy-branch-a/main"}[extra], track == 1)
	c.Logf("%s", desc)
	repo, err := newCLIRepo()
	if err != nil {
		panic("mc: cannot create CLI repository: " + err.Error())
	}
	defer repo.remove()
	tables := make([][]byte, 6)
	tbls := []int{2, 0, 1, 2, 0, 0} // nodes 1 and 2 carry the 300-row table and its one-row extension: a real 3-way merge of them is conflict-free
	for i := range tables {
		tables[i] = pool[tbls[i]].st.sum
	}
	times := c10times(order, 6)
	db, rs, closeFn, err := repo.open()
	if err != nil {
		panic(err)
	}
	for _, pt := range pool {
		copyTableTo(db, pt)
	}
	sums, err := buildCommits(db, c10graph, times, tables)
	if err != nil {
		panic(err)
	}
	ref.SaveRef(rs, "heads/main", sums[rel.old], "t", "t@t", "setup", "setup", nil)
	decoy := -1
	if extra == 4 {
		// another branch whose name ends in /main: on the root commit, or on an unrelated commit when
		// main itself is on the root
		decoy = 0
		if rel.old == 0 {
			decoy = 3
		}
		ref.SaveRef(rs, "heads/a/main", sums[decoy], "t", "t@t", "setup", "setup", nil)
	}
	var ts *httptest.Server
	if viaPull {
		sdb := stores.NewMemStore()
		srs := stores.NewMapRefStore()
		for _, pt := range pool {
			for _, k := range pt.keys {
				sdb.PutRaw(k, tableCacheDB.Raw(k))
			}
		}
		if _, err := buildCommits(sdb, c10graph, times, tables); err != nil {
			panic(err)
		}
		srs.Set("heads/main", sums[rel.new])
		if track == 1 {
			ref.SaveRef(rs, "remotes/origin/main", sums[rel.old], "t", "t@t", "fetch", "[from origin] storing head", nil)
		}
		ts = httptest.NewServer(refsrv.New(sdb, srs))
		defer ts.Close()
	} else {
		ref.SaveRef(rs, "heads/other", sums[rel.new], "t", "t@t", "setup", "setup", nil)
	}
	closeFn()
	wd, _ := os.Getwd()
	os.Chdir(repo.root)
	defer os.Chdir(wd)
	var args []string
	if viaPull {
		if _, err := repo.run(nil, "remote", "add", "origin", ts.URL); err != nil {
			c.Fail("cli-error", "remote add failed: %v; %s", err, desc)
			return
		}
		args = []string{"pull", "main", "origin", "refs/heads/main:refs/remotes/origin/main", "-n", "1"}
		if track == 1 {
			args[3] = "+" + args[3]
		}
	} else {
		args = []string{"merge", "main", "other", "-n", "1"}
		if extra == 3 {
			args[1] = "main^"
		}
	}
	if mode != "" {
		args = append(args, mode)
	}
	switch extra {
	case 1:
		// an "already resolved" CSV: the rows of the other commit's table
		pt := pool[tbls[rel.new]].st
		var pk []string
		for _, i := range pt.tbl.PK {
			pk = append(pk, pt.tbl.Columns[i])
		}
		if err := os.WriteFile(filepath.Join(repo.root, "resolved.csv"), csvBytes(pt.tbl.Columns, pt.rows, 0), 0644); err != nil {
			panic(err)
		}
		args = append(args, "--commit-csv", filepath.Join(repo.root, "resolved.csv"), "--primary-key", strings.Join(pk, ","))
	case 2:
		args = append(args, "--no-gui")
	}
	var out string
	var cerr error
	if p, st := mc.Try(func() { out, cerr = repo.run(nil, args...) }); p != nil {
		c.Fail("cli-panic", "wrgl %s panicked: %v; %s\n%s", args[0], p, desc, firstLinesOf(st, 10))
		return
	}
	c.Logf("output: %s err: %v", strings.ReplaceAll(out, "\n", " | "), cerr)
	ldb, lrs, cl, err := repo.open()
	if err != nil {
		panic(err)
	}
	defer cl()
	head, err := ref.GetHead(lrs, "main")
	if err != nil {
		c.Fail("branch-lost", "branch main disappeared; %s", desc)
		return
	}
	anc := c10graph.Anc()
	headNode := indexOfSum(sums, head)
	// the new head must be the old one or descend from it
	isDesc := func() bool {
		if bytes.Equal(head, sums[rel.old]) {
			return true
		}
		ok, _ := ref.IsAncestorOf(ldb, sums[rel.old], head)
		return ok
	}()
	if !isDesc {
		c.Fail("moved-backwards", "after wrgl %s the branch points to %x (node %d), which does not descend from its previous value node %d; %s", args[0], head, headNode, rel.old, desc)
		return
	}
	if decoy >= 0 {
		// the other branch is none of this command's business: it stays, or moves to a descendant
		dh, err := ref.GetHead(lrs, "a/main")
		if err != nil {
			c.Fail("branch-lost", "branch a/main disappeared; %s", desc)
			return
		}
		if !bytes.Equal(dh, sums[decoy]) {
			if ok, _ := ref.IsAncestorOf(ldb, sums[decoy], dh); !ok {
				c.Fail("moved-backwards", "wrgl merge main other moved the branch a/main to %x, which does not descend from its previous value node %d; %s", dh, decoy, desc)
				return
			}
		}
	}
	otherIsDescendant := rel.old != rel.new && descends(anc, rel.new, rel.old)
	switch {
	case extra == 3:
		// the branch named through main^: the command may refuse; whatever it does, the branch must
		// not leave its own history (checked above) and a move must be logged (checked below)
	case otherIsDescendant && mode != "--no-ff":
		if headNode != rel.new {
			c.Fail("ff-not-exact", "a fast-forward merge must move the branch exactly to the other commit (node %d) but it points to %x (node %d); output %q err %v; %s", rel.new, head, headNode, out, cerr, desc)
			return
		}
	case rel.name == "diverged" && mode == "--ff-only":
		if headNode != rel.old {
			c.Fail("ff-only-moved", "--ff-only with diverged histories must leave the branch alone; it points to node %d; %s", headNode, desc)
			return
		}
		if cerr == nil {
			c.Fail("rejection-not-reported", "--ff-only with diverged histories did not fail; output %q; %s", out, desc)
			return
		}
	case (rel.name == "diverged" || (otherIsDescendant && mode == "--no-ff")) && extra == 2 && headNode == rel.old:
		// --no-gui may write conflicts / resolved rows to a file instead of committing: the branch stays
	case rel.name == "diverged" || (otherIsDescendant && mode == "--no-ff"):
		// a merge commit whose parents are the branch and the other commit
		if cerr != nil {
			c.Fail("merge-error", "merge failed: %v; output %q; %s", cerr, out, desc)
			return
		}
		com, err := objects.GetCommit(ldb, head)
		if err != nil || len(com.Parents) != 2 || !bytes.Equal(com.Parents[0], sums[rel.old]) || !bytes.Equal(com.Parents[1], sums[rel.new]) {
			c.Fail("merge-commit", "expected a merge commit with parents (node %d, node %d), branch points to node %d / commit %+v; %s", rel.old, rel.new, headNode, com, desc)
			return
		}
	}
	if !bytes.Equal(head, sums[rel.old]) {
		rl, err := latestLog(lrs, "heads/main")
		if err != nil || !bytes.Equal(rl.NewOID, head) || !bytes.Equal(rl.OldOID, sums[rel.old]) {
			c.Fail("reflog", "branch moved but its newest reflog entry does not record old=node %d new=%x (entry %+v, err %v); %s", rel.old, head, rl, err, desc)
			return
		}
	}
	c.Outcome(fmt.Sprintf("%s-%s-%s-head%d", args[0], rel.name, mode, headNode))
	c.Nontrivial(desc)
	if c.WantSample() && rel.name == "diverged" {
		c.Sample(map[string]any{"case": desc, "output": out})
	}
}

func init() {
	register(&mc.Check{
		ID:    "C10",
		Level: "exploration",
		Rule: "fetch and push through the real command tree against the reference server, each operation carrying TWO refs: the first (sorted first) with every history relation between its old and offered value in {new ref, equal, ahead, far ahead, ahead through a merge that also reaches the grandparent directly, behind, diverged, unrelated} x ref kind {head->remote-tracking / head->head, tag, custom ref, head->head, head->tag} x '+' on its refspec; " +
			"the second (sorted last) from {legal new ref, unforced diverged, '+' diverged, unforced moved tag, fast-forward}; (deviations) global --force, commit-time order {topological, reversed, equal}. merge and pull: relation in {equal, ahead, far ahead, ahead-with-shortcut, behind, diverged} x {default, --no-ff, --ff-only} x {wrgl merge, wrgl pull}, wrgl merge also with --commit-csv <resolved file>, with --no-gui with the branch named through a revision expression (main^), and with a second branch a/main present (thorough: also commit-time orders). All 800+ combinations are run on an on-disk repository. " +
			"Oracle (ref-transition model): an unforced update lands only if the new value descends from the old one and never replaces an existing tag; a refused update leaves the ref unchanged and is reported; every ref is judged on its own relation and its own force flag (one ref's '+' or rejection never changes another ref's outcome); a fast-forward merge moves the branch exactly to the other commit; --ff-only refuses diverged histories; " +
			"every ref that changed has a newest reflog entry with the true old and new values and resolves to a stored commit. non-trivial / distinct = every combination",
		Assumptions: []string{"for push the reference server applies exactly the updates it is asked to apply, so the check is on what the client requests and reports", "history relations are realised on a fixed 6-commit universe"},
		Harnesses: []*mc.Harness{
			{Name: "fetch-push-refs", Body: c10FetchPush, DevBound: map[string]int{"quick": 1, "thorough": 2}, Budget: map[string]time.Duration{"quick": 75 * time.Second, "thorough": 8 * time.Minute}},
			{Name: "merge-pull", Body: c10Merge, DevBound: map[string]int{"quick": 1, "thorough": 2}, Budget: map[string]time.Duration{"quick": 60 * time.Second, "thorough": 5 * time.Minute}},
		},
	})
}
