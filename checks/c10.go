package checks

import (
	"bytes"
	"fmt"
	"net/http/httptest"
	"os"
	"strings"
	"time"

	"github.com/wrgl/wrgl/pkg/objects"
	"github.com/wrgl/wrgl/pkg/ref"

	"verif/mc"
	"verif/model"
	"verif/refsrv"
	"verif/stores"
)

// C10 — without force, a ref only ever moves forward along its own history.
//
// universe: 0 root; 1 child of 0; 2 another child of 0; 3 an unrelated root; 4 child of 1;
// 5 merges 4 with the root 0, so 1 is an ancestor of 5 although 5 also has a direct edge to 1's parent
var c10graph = &model.Graph{Parents: [][]int{{}, {0}, {0}, {}, {1}, {4, 0}}}

type c10rel struct {
	name     string
	old, new int // node indices, -1 = ref absent
}

var c10rels = []c10rel{
	{"new-ref", -1, 1}, {"equal", 1, 1}, {"ahead", 0, 1}, {"far-ahead", 0, 4}, {"ahead-with-shortcut", 1, 5}, {"behind", 1, 0}, {"diverged", 1, 2}, {"unrelated", 1, 3},
}

func copyTableTo(db objects.Store, pt *poolTable) {
	for _, k := range pt.keys {
		if err := db.Set([]byte(k), tableCacheDB.Raw(k)); err != nil {
			panic(err)
		}
	}
}

func c10times(order int, n int) []int {
	t := make([]int, n)
	for i := range t {
		switch order {
		case 0:
			t[i] = i
		case 1:
			t[i] = n - i
		default:
			t[i] = 0
		}
	}
	return t
}

// latestLog returns the newest reflog entry of a ref.
func latestLog(rs ref.Store, name string) (*ref.Reflog, error) {
	r, err := rs.LogReader(name)
	if err != nil {
		return nil, err
	}
	defer r.Close()
	return r.Read()
}

func descends(anc []uint64, newN, oldN int) bool { return anc[newN]&(1<<uint(oldN)) != 0 }

func c10FetchPush(c *mc.Ctx) {
	op := []string{"fetch", "push"}[c.Choose(2)]
	rel := c10rels[c.Choose(len(c10rels))]
	kind := c.Choose(4) // 0 head->remote-tracking (fetch) / head->head (push); 1 tag; 2 custom ref; 3 head->head
	force := c.Choose(3) // 0 none, 1 '+' on the refspec, 2 --force
	order := c.ChooseDev(3)
	c.Shard()
	pool := c12Pool()
	desc := fmt.Sprintf("%s relation=%s(old=node %d,new=node %d) refkind=%d force=%d timeorder=%d", op, rel.name, rel.old, rel.new, kind, force, order)
	c.Logf("%s", desc)
	repo, err := newCLIRepo()
	if err != nil {
		panic("mc: cannot create CLI repository: " + err.Error())
	}
	defer repo.remove()
	// remote side: in-memory stores behind the reference server
	sdb := stores.NewMemStore()
	srs := stores.NewMapRefStore()
	for _, k := range pool[2].keys {
		sdb.PutRaw(k, tableCacheDB.Raw(k))
	}
	tables := make([][]byte, 6)
	for i := range tables {
		tables[i] = pool[2].st.sum
	}
	times := c10times(order, 6)
	ssums, err := buildCommits(sdb, c10graph, times, tables)
	if err != nil {
		panic(err)
	}
	// local side: the same universe written into the on-disk repository
	db, rs, closeFn, err := repo.open()
	if err != nil {
		panic(err)
	}
	copyTableTo(db, pool[2])
	lsums, err := buildCommits(db, c10graph, times, tables)
	if err != nil {
		panic(err)
	}
	_ = lsums
	var src, dst, okSrc, okDst string
	switch kind {
	case 0:
		src, dst = "refs/heads/x", "refs/remotes/origin/x"
		if op == "push" {
			dst = "refs/heads/x"
		}
	case 1:
		src, dst = "refs/tags/t", "refs/tags/t"
	case 2:
		src, dst = "refs/custom/y", "refs/custom/y"
	default:
		src, dst = "refs/heads/x", "refs/heads/x"
	}
	okSrc, okDst = "refs/heads/ok", "refs/remotes/origin/ok"
	if op == "push" {
		okDst = "refs/heads/ok"
	}
	trim := func(s string) string { return strings.TrimPrefix(s, "refs/") }
	// the side that offers the new value and the side whose ref is updated
	var updated ref.Store
	if op == "fetch" {
		srs.Set(trim(src), ssums[rel.new])
		srs.Set(trim(okSrc), ssums[1])
		if rel.old >= 0 {
			ref.SaveRef(rs, trim(dst), ssums[rel.old], "t", "t@t", "setup", "setup", nil)
		}
		updated = nil // local, opened after the command
	} else {
		ref.SaveRef(rs, trim(src), ssums[rel.new], "t", "t@t", "setup", "setup", nil)
		ref.SaveRef(rs, trim(okSrc), ssums[1], "t", "t@t", "setup", "setup", nil)
		if rel.old >= 0 {
			srs.Set(trim(dst), ssums[rel.old])
		}
		updated = srs
	}
	closeFn()
	srv := refsrv.New(sdb, srs)
	ts := httptest.NewServer(srv)
	defer ts.Close()
	if _, err := repo.run(nil, "remote", "add", "origin", ts.URL); err != nil {
		c.Fail("cli-error", "remote add failed: %v; %s", err, desc)
		return
	}
	spec := trim(src) + ":" + trim(dst)
	spec = "refs/" + spec[:strings.Index(spec, ":")] + ":refs/" + trim(dst)
	if force == 1 {
		spec = "+" + spec
	}
	args := []string{op, "origin", spec, okSrc + ":" + okDst}
	if force == 2 {
		args = append(args, "--force")
	}
	var out string
	var cerr error
	if p, st := mc.Try(func() { out, cerr = repo.run(nil, args...) }); p != nil {
		c.Fail("cli-panic", "wrgl %s panicked: %v; %s\n%s", op, p, desc, firstLinesOf(st, 10))
		return
	}
	c.Logf("output: %s err: %v", strings.ReplaceAll(out, "\n", " | "), cerr)
	var ldb objects.Store
	if op == "fetch" {
		var lrs ref.Store
		var cl func()
		ldb, lrs, cl, err = repo.open()
		if err != nil {
			panic(err)
		}
		defer cl()
		updated = lrs
	}
	anc := c10graph.Anc()
	got, gerr := updated.Get(trim(dst))
	gotNode := -1
	if gerr == nil {
		gotNode = indexOfSum(ssums, got)
	}
	forced := force != 0
	isTag := kind == 1
	legal := rel.old < 0 || rel.old == rel.new || (!isTag && descends(anc, rel.new, rel.old))
	switch {
	case legal || forced:
		if gotNode != rel.new {
			c.Fail("legal-update-lost", "the update of %s from node %d to node %d is %s but the ref now points to node %d (output %q, err %v); %s", dst, rel.old, rel.new, map[bool]string{true: "forced", false: "a fast-forward"}[forced && !legal], gotNode, out, cerr, desc)
			return
		}
	default:
		if gotNode != rel.old {
			c.Fail("moved-backwards", "unforced %s moved %s from node %d to node %d, which does not descend from it (tag=%v); %s", op, dst, rel.old, gotNode, isTag, desc)
			return
		}
		if cerr == nil && !strings.Contains(out, "rejected") {
			c.Fail("rejection-not-reported", "the update of %s was refused but the command neither failed nor printed a rejection (output %q); %s", dst, out, desc)
			return
		}
	}
	// the legal companion ref is updated regardless of the rejection
	okGot, err := updated.Get(trim(okDst))
	if err != nil || !bytes.Equal(okGot, ssums[1]) {
		c.Fail("companion-ref-blocked", "the always-legal ref %s was not updated (err %v) in an operation where another ref was %s; output %q; %s", okDst, err, map[bool]string{true: "accepted", false: "rejected"}[legal || forced], out, desc)
		return
	}
	// reflog of every changed local ref carries the true old and new values
	if op == "fetch" && gotNode != rel.old {
		rl, err := latestLog(updated, trim(dst))
		if err != nil {
			c.Fail("reflog", "ref %s changed but has no reflog entry (%v); %s", dst, err, desc)
			return
		}
		var wantOld []byte
		if rel.old >= 0 {
			wantOld = ssums[rel.old]
		}
		if !bytes.Equal(rl.NewOID, ssums[rel.new]) || !(bytes.Equal(rl.OldOID, wantOld) || (wantOld == nil && len(rl.OldOID) == 0)) {
			c.Fail("reflog", "newest reflog entry of %s records old=%x new=%x, true values old=%x new=%x; %s", dst, rl.OldOID, rl.NewOID, wantOld, ssums[rel.new], desc)
			return
		}
		// history of the moved ref is complete locally
		if msg := model.CheckRepoRefs(ldb, updated.(model.RefLister)); msg != "" {
			c.Fail("ref-dangling", "%s; %s", msg, desc)
			return
		}
	}
	c.Outcome(fmt.Sprintf("%s-%s-legal=%v-forced=%v", op, rel.name, legal, forced))
	c.Nontrivial(desc)
	if c.WantSample() && !legal {
		c.Sample(map[string]any{"case": desc, "output": out})
	}
}

// merge / pull: a branch only moves to a descendant; ff moves exactly to the other commit
func c10Merge(c *mc.Ctx) {
	rel := []c10rel{{"equal", 1, 1}, {"ahead", 0, 1}, {"far-ahead", 0, 4}, {"ahead-with-shortcut", 1, 5}, {"behind", 1, 0}, {"diverged", 1, 2}}[c.Choose(6)]
	mode := []string{"", "--no-ff", "--ff-only"}[c.Choose(3)]
	viaPull := c.Choose(2) == 1
	order := c.ChooseDev(3)
	c.Shard()
	pool := c12Pool()
	desc := fmt.Sprintf("merge relation=%s(branch=node %d, other=node %d) mode=%q viaPull=%v timeorder=%d", rel.name, rel.old, rel.new, mode, viaPull, order)
	c.Logf("%s", desc)
	repo, err := newCLIRepo()
	if err != nil {
		panic("mc: cannot create CLI repository: " + err.Error())
	}
	defer repo.remove()
	tables := make([][]byte, 6)
	tbls := []int{2, 0, 1, 2, 0, 0} // nodes 1 and 2 carry the 300-row table and its one-row extension: a real 3-way merge of them is conflict-free
	for i := range tables {
		tables[i] = pool[tbls[i]].st.sum
	}
	times := c10times(order, 6)
	db, rs, closeFn, err := repo.open()
	if err != nil {
		panic(err)
	}
	for _, pt := range pool {
		copyTableTo(db, pt)
	}
	sums, err := buildCommits(db, c10graph, times, tables)
	if err != nil {
		panic(err)
	}
	ref.SaveRef(rs, "heads/main", sums[rel.old], "t", "t@t", "setup", "setup", nil)
	var ts *httptest.Server
	if viaPull {
		sdb := stores.NewMemStore()
		srs := stores.NewMapRefStore()
		for _, pt := range pool {
			for _, k := range pt.keys {
				sdb.PutRaw(k, tableCacheDB.Raw(k))
			}
		}
		if _, err := buildCommits(sdb, c10graph, times, tables); err != nil {
			panic(err)
		}
		srs.Set("heads/main", sums[rel.new])
		ts = httptest.NewServer(refsrv.New(sdb, srs))
		defer ts.Close()
	} else {
		ref.SaveRef(rs, "heads/other", sums[rel.new], "t", "t@t", "setup", "setup", nil)
	}
	closeFn()
	wd, _ := os.Getwd()
	os.Chdir(repo.root)
	defer os.Chdir(wd)
	var args []string
	if viaPull {
		if _, err := repo.run(nil, "remote", "add", "origin", ts.URL); err != nil {
			c.Fail("cli-error", "remote add failed: %v; %s", err, desc)
			return
		}
		args = []string{"pull", "main", "origin", "refs/heads/main:refs/remotes/origin/main", "-n", "1"}
	} else {
		args = []string{"merge", "main", "other", "-n", "1"}
	}
	if mode != "" {
		args = append(args, mode)
	}
	var out string
	var cerr error
	if p, st := mc.Try(func() { out, cerr = repo.run(nil, args...) }); p != nil {
		c.Fail("cli-panic", "wrgl %s panicked: %v; %s\n%s", args[0], p, desc, firstLinesOf(st, 10))
		return
	}
	c.Logf("output: %s err: %v", strings.ReplaceAll(out, "\n", " | "), cerr)
	ldb, lrs, cl, err := repo.open()
	if err != nil {
		panic(err)
	}
	defer cl()
	head, err := ref.GetHead(lrs, "main")
	if err != nil {
		c.Fail("branch-lost", "branch main disappeared; %s", desc)
		return
	}
	anc := c10graph.Anc()
	headNode := indexOfSum(sums, head)
	// the new head must be the old one or descend from it
	isDesc := func() bool {
		if bytes.Equal(head, sums[rel.old]) {
			return true
		}
		ok, _ := ref.IsAncestorOf(ldb, sums[rel.old], head)
		return ok
	}()
	if !isDesc {
		c.Fail("moved-backwards", "after wrgl %s the branch points to %x (node %d), which does not descend from its previous value node %d; %s", args[0], head, headNode, rel.old, desc)
		return
	}
	otherIsDescendant := rel.old != rel.new && descends(anc, rel.new, rel.old)
	switch {
	case otherIsDescendant && mode != "--no-ff":
		if headNode != rel.new {
			c.Fail("ff-not-exact", "a fast-forward merge must move the branch exactly to the other commit (node %d) but it points to %x (node %d); output %q err %v; %s", rel.new, head, headNode, out, cerr, desc)
			return
		}
	case rel.name == "diverged" && mode == "--ff-only":
		if headNode != rel.old {
			c.Fail("ff-only-moved", "--ff-only with diverged histories must leave the branch alone; it points to node %d; %s", headNode, desc)
			return
		}
		if cerr == nil {
			c.Fail("rejection-not-reported", "--ff-only with diverged histories did not fail; output %q; %s", out, desc)
			return
		}
	case rel.name == "diverged" || (otherIsDescendant && mode == "--no-ff"):
		// a merge commit whose parents are the branch and the other commit
		if cerr != nil {
			c.Fail("merge-error", "merge failed: %v; output %q; %s", cerr, out, desc)
			return
		}
		com, err := objects.GetCommit(ldb, head)
		if err != nil || len(com.Parents) != 2 || !bytes.Equal(com.Parents[0], sums[rel.old]) || !bytes.Equal(com.Parents[1], sums[rel.new]) {
			c.Fail("merge-commit", "expected a merge commit with parents (node %d, node %d), branch points to node %d / commit %+v; %s", rel.old, rel.new, headNode, com, desc)
			return
		}
	}
	if !bytes.Equal(head, sums[rel.old]) {
		rl, err := latestLog(lrs, "heads/main")
		if err != nil || !bytes.Equal(rl.NewOID, head) || !bytes.Equal(rl.OldOID, sums[rel.old]) {
			c.Fail("reflog", "branch moved but its newest reflog entry does not record old=node %d new=%x (entry %+v, err %v); %s", rel.old, head, rl, err, desc)
			return
		}
	}
	c.Outcome(fmt.Sprintf("%s-%s-%s-head%d", args[0], rel.name, mode, headNode))
	c.Nontrivial(desc)
	if c.WantSample() && rel.name == "diverged" {
		c.Sample(map[string]any{"case": desc, "output": out})
	}
}

func init() {
	register(&mc.Check{
		ID:    "C10",
		Level: "exploration",
		Rule: "fetch and push through the real command tree against the reference server: history relation between the ref's old value and the offered value in {new ref, equal, ahead, far ahead, ahead through a merge that also reaches the grandparent directly, behind, diverged, unrelated} x ref kind {head->remote-tracking / head->head, tag, custom ref, head->head} x force {none, '+' refspec, --force} x (deviation) commit-time order {topological, reversed, equal}, " +
			"each operation also carrying a second, always-legal ref. merge and pull: relation in {equal, ahead, far ahead, ahead-with-shortcut, behind, diverged} x {default, --no-ff, --ff-only} x {wrgl merge, wrgl pull}. All 252+30 combinations are run on an on-disk repository. " +
			"Oracle (ref-transition model): an unforced update lands only if the new value descends from the old one and never replaces an existing tag; a refused update leaves the ref unchanged and is reported; the companion ref is updated regardless; a fast-forward merge moves the branch exactly to the other commit; --ff-only refuses diverged histories; " +
			"every ref that changed has a newest reflog entry with the true old and new values and resolves to a stored commit. non-trivial / distinct = every combination",
		Assumptions: []string{"for push the reference server applies exactly the updates it is asked to apply, so the check is on what the client requests and reports", "history relations are realised on a fixed 6-commit universe"},
		Harnesses: []*mc.Harness{
			{Name: "fetch-push-refs", Body: c10FetchPush, DevBound: map[string]int{"quick": 0, "thorough": 1}, Budget: map[string]time.Duration{"quick": 75 * time.Second, "thorough": 8 * time.Minute}},
			{Name: "merge-pull", Body: c10Merge, DevBound: map[string]int{"quick": 0, "thorough": 1}, Budget: map[string]time.Duration{"quick": 60 * time.Second, "thorough": 5 * time.Minute}},
		},
	})
}
