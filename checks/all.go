// Package checks holds one file per property: the harnesses that enumerate its bounded
// space against the real wrgl code, and the oracle each execution is compared with.
package checks

import "verif/mc"

var registry []*mc.Check

func register(c *mc.Check) { registry = append(registry, c) }

// All returns every registered check.
func All() []*mc.Check { return registry }
