package checks

import (
	"bytes"
	"fmt"
	"sort"
	"strings"
	"time"

	"github.com/google/uuid"
	"github.com/wrgl/wrgl/pkg/objects"
	"github.com/wrgl/wrgl/pkg/ref"
	"github.com/wrgl/wrgl/pkg/transaction"
	"github.com/wrgl/wrgl/pkg/verifrt"

	"verif/mc"
	"verif/model"
	"verif/stores"
)

// C14 — a transaction's commits land on all of its branches or on none.

type c14world struct {
	db       *stores.MemStore
	fdb      *stores.FaultObjects
	rs       ref.Store
	frs      *stores.FaultRefs
	faults   *stores.Faults
	id       uuid.UUID
	branches []string
	orig     map[string][]byte // head before the transaction (nil = new branch)
	staged   map[string][]byte // staged commit sums
	stagedT  map[string][]byte // staged table sums
	closeFn  func()
}

// hostile branch names: they begin with characters of the "heads/" prefix, one is what is left of another
// when those characters are trimmed ("data" -> "ta"), one is nested and consists of such characters only
var c14hostileNames = []string{"data", "ta", "a/ds"}

func c14setup(nb int, existing int, perm []int, hostile bool) *c14world {
	w := &c14world{db: stores.NewMemStore(), faults: &stores.Faults{}, orig: map[string][]byte{}, staged: map[string][]byte{}, stagedT: map[string][]byte{}}
	rs, _, closeFn := stores.NewMemRefStore()
	w.rs, w.closeFn = rs, closeFn
	w.fdb = &stores.FaultObjects{Store: w.db, F: w.faults}
	w.frs = &stores.FaultRefs{Store: rs, F: w.faults}
	id, err := rs.NewTransaction(nil)
	if err != nil {
		panic(err)
	}
	w.id = *id
	for i := 0; i < nb; i++ {
		b := fmt.Sprintf("br%d", i)
		if hostile {
			b = c14hostileNames[i]
		}
		w.branches = append(w.branches, b)
		if existing&(1<<uint(i)) != 0 {
			sum, err := commitTable(w.db, rs, b, bytes.Repeat([]byte{byte(0x30 + i)}, 16), nil, i)
			if err != nil {
				panic(err)
			}
			w.orig[b] = sum
		}
		tbl := bytes.Repeat([]byte{byte(0x60 + i)}, 16)
		c := &objects.Commit{Table: tbl, AuthorName: "a", AuthorEmail: "a@b", Message: "staged " + b, Time: baseTime.Add(time.Duration(100+i) * time.Second)}
		buf := bytes.NewBuffer(nil)
		c.WriteTo(buf)
		sum, err := objects.SaveCommit(w.db, buf.Bytes())
		if err != nil {
			panic(err)
		}
		if err := ref.SaveTransactionRef(rs, w.id, b, sum); err != nil {
			panic(err)
		}
		w.staged[b] = sum
		w.stagedT[b] = tbl
	}
	verifrt.MapPerm = func(site string, n int) []int {
		if site == "transaction.Commit" && len(perm) == n {
			return perm
		}
		return nil
	}
	return w
}

// newCommits counts, for a branch, how many commits of this transaction sit between its head and
// its original head; -1 if the head does not descend from the original head at all.
func (w *c14world) newCommits(b string) (n int, tableOK bool, err error) {
	head, e := ref.GetHead(w.rs, b)
	if e != nil {
		if w.orig[b] == nil {
			return 0, true, nil
		}
		return -1, false, fmt.Errorf("branch %s disappeared", b)
	}
	cur := head
	tableOK = true
	for i := 0; i < 8; i++ {
		if bytes.Equal(cur, w.orig[b]) {
			return n, tableOK, nil
		}
		c, e := objects.GetCommit(w.db, cur)
		if e != nil {
			return -1, false, fmt.Errorf("branch %s points to unreadable commit %x: %v", b, cur, e)
		}
		n++
		if !bytes.Equal(c.Table, w.stagedT[b]) {
			tableOK = false
		}
		if len(c.Parents) == 0 {
			if w.orig[b] == nil {
				return n, tableOK, nil
			}
			return -1, false, fmt.Errorf("branch %s no longer descends from its previous head", b)
		}
		cur = c.Parents[0]
	}
	return -1, false, fmt.Errorf("branch %s: history too long", b)
}

// txCommits counts the commits carrying the branch's staged table on its first-parent chain.
func (w *c14world) txCommits(b string) int {
	cur, err := ref.GetHead(w.rs, b)
	if err != nil {
		return 0
	}
	n := 0
	for i := 0; i < 10 && cur != nil; i++ {
		c, err := objects.GetCommit(w.db, cur)
		if err != nil {
			return -1
		}
		if bytes.Equal(c.Table, w.stagedT[b]) {
			n++
		}
		if len(c.Parents) == 0 {
			break
		}
		cur = c.Parents[0]
	}
	return n
}

func (w *c14world) status() string {
	tx, err := w.rs.GetTransaction(w.id)
	if err != nil {
		return "gone"
	}
	return string(tx.Status)
}

func (w *c14world) heads() map[string]string {
	m := map[string]string{}
	for _, b := range w.branches {
		h, err := ref.GetHead(w.rs, b)
		if err == nil {
			m[b] = string(h)
		}
	}
	return m
}

type c14op struct {
	kind string // commit | discard
	mode string // clean | fail | crash
	at   int
}

func (o c14op) String() string {
	if o.mode == "clean" {
		return o.kind
	}
	return fmt.Sprintf("%s(%s at store write #%d)", o.kind, o.mode, o.at)
}

// run executes the op; crashed reports a simulated process death.
func (w *c14world) run(o c14op) (err error, crashed bool, reached bool) {
	w.faults.Reset()
	switch o.mode {
	case "fail":
		w.faults.FailAt = o.at
	case "crash":
		w.faults.CrashAt = o.at
	}
	defer func() {
		reached = w.faults.Hit
		if r := recover(); r != nil {
			if _, ok := r.(stores.Crash); ok {
				crashed = true
				err = nil
				return
			}
			panic(r)
		}
	}()
	if o.kind == "commit" {
		_, err = transaction.Commit(w.fdb, w.frs, w.id)
	} else {
		err = transaction.Discard(w.frs, w.id)
	}
	return err, false, false
}

func c14Body(c *mc.Ctx) {
	needRewrite("maporder:transaction")
	nb := 1 + c.Choose(3)
	existing := c.Choose(1 << uint(nb))
	perms := model.Perms(nb)
	perm := perms[c.ChooseDev(len(perms))]
	// an ordinary commit lands on every branch the interrupted attempt had already moved, before the re-run
	interleave := nb >= 2 && c.ChooseDev(2) == 1
	hostile := c.ChooseDev(2) == 1 // branch names data, ta, a/ds instead of br0..br2
	nops := 2
	if c.Thorough() {
		nops = 3
	}
	var ops []c14op
	for i := 0; i < nops; i++ {
		kind := []string{"commit", "discard", "none"}[c.Choose(3)]
		if kind == "none" {
			break
		}
		mode := []string{"clean", "fail", "crash"}[c.Choose(3)]
		at := 0
		if mode != "clean" {
			at = 1 + c.Choose(2*nb+2) // commit performs 2 writes per branch + 1; discard 1 per branch + 1
		}
		ops = append(ops, c14op{kind, mode, at})
	}
	c.Shard()
	w := c14setup(nb, existing, perm, hostile)
	defer w.closeFn()
	defer func() { verifrt.MapPerm = nil }()
	var od []string
	for _, o := range ops {
		od = append(od, o.String())
	}
	desc := fmt.Sprintf("%d staged branches (existing mask %b, commit order %v); ops: %s; then a clean re-run of commit (ordinary commits on already moved branches first: %v; branches named %v)", nb, existing, perm, strings.Join(od, " ; "), interleave, w.branches)
	c.Logf("%s", desc)
	committed := false
	discarded := false
	discardAttempted := false // once a discard ran (even partially) the staged set may have shrunk
	check := func(step string) bool {
		st := w.status()
		moved := 0
		for _, b := range w.branches {
			n, tok, err := w.newCommits(b)
			if err != nil {
				c.Fail("branch-broken", "%s: %v; %s", step, err, desc)
				return false
			}
			if n > 1 {
				c.Fail("duplicate-commit", "%s: branch %s received %d commits from one transaction; %s", step, b, n, desc)
				return false
			}
			if n == 1 && !tok {
				c.Fail("wrong-data", "%s: the commit on branch %s does not carry the staged table; %s", step, b, desc)
				return false
			}
			moved += n
		}
		if st == "committed" && moved != nb && !discardAttempted {
			c.Fail("committed-but-partial", "%s: transaction is marked committed but only %d of %d branches moved; %s", step, moved, nb, desc)
			return false
		}
		return true
	}
	for i, o := range ops {
		before := w.heads()
		stBefore := w.status()
		if o.kind == "discard" {
			discardAttempted = true
		}
		err, crashed, reached := w.run(o)
		step := fmt.Sprintf("after op %d (%s)", i+1, o)
		if !check(step) {
			return
		}
		switch {
		case o.kind == "commit" && stBefore == "committed":
			if err == nil && !crashed && o.mode == "clean" {
				c.Fail("double-commit", "%s: committing an already committed transaction succeeded; %s", step, desc)
				return
			}
			if fmt.Sprint(before) != fmt.Sprint(w.heads()) {
				c.Fail("double-commit", "%s: committing an already committed transaction moved a branch; %s", step, desc)
				return
			}
		case o.kind == "commit" && stBefore == "in-progress" && !discardAttempted:
			if o.mode == "clean" || !reached {
				if err != nil || crashed {
					c.Fail("commit-error", "%s: a commit without fault failed: %v; %s", step, err, desc)
					return
				}
				if w.status() != "committed" {
					c.Fail("commit-incomplete", "%s: commit returned success but the transaction is %q; %s", step, w.status(), desc)
					return
				}
				for _, b := range w.branches {
					if n, _, _ := w.newCommits(b); n != 1 {
						c.Fail("commit-incomplete", "%s: commit returned success but branch %s did not move; %s", step, b, desc)
						return
					}
					// the branch's log records the transaction with the true old and new values
					logs, lerr := w.rs.GetTransactionLogs(w.id)
					if lerr != nil || logs["heads/"+b] == nil {
						c.Fail("commit-log", "%s: no reflog entry tagged with the transaction for branch %s (%v); %s", step, b, lerr, desc)
						return
					}
					head, _ := ref.GetHead(w.rs, b)
					rl := logs["heads/"+b]
					if !bytes.Equal(rl.NewOID, head) || !(bytes.Equal(rl.OldOID, w.orig[b]) || (w.orig[b] == nil && len(rl.OldOID) == 0)) {
						c.Fail("commit-log", "%s: reflog of %s records old=%x new=%x, true old=%x new=%x; %s", step, b, rl.OldOID, rl.NewOID, w.orig[b], head, desc)
						return
					}
				}
				committed = true
			} else if err == nil && !crashed && reached {
				c.Fail("error-swallowed", "%s: a store failure during commit was not reported; %s", step, desc)
				return
			}
		case o.kind == "discard" && stBefore == "committed":
			if err == nil && !crashed && (o.mode == "clean" || !reached) {
				c.Fail("discard-committed", "%s: discarding a committed transaction succeeded; %s", step, desc)
				return
			}
			if fmt.Sprint(before) != fmt.Sprint(w.heads()) || w.status() != "committed" {
				c.Fail("discard-committed", "%s: discarding a committed transaction changed a branch or the transaction (status %q); %s", step, w.status(), desc)
				return
			}
		case o.kind == "discard":
			if fmt.Sprint(before) != fmt.Sprint(w.heads()) {
				c.Fail("discard-touched-branch", "%s: discard changed a branch; %s", step, desc)
				return
			}
			if (o.mode == "clean" || !reached) && stBefore == "in-progress" {
				if err != nil {
					c.Fail("discard-error", "%s: discard failed: %v; %s", step, err, desc)
					return
				}
				m, _ := ref.ListTransactionRefs(w.rs, w.id)
				if len(m) != 0 || w.status() != "gone" {
					c.Fail("discard-incomplete", "%s: after discard %d staged refs remain and the transaction is %q; %s", step, len(m), w.status(), desc)
					return
				}
				discarded = true
			}
		}
	}
	// the transaction, if still in progress and not discarded, can be completed by re-running commit
	if w.status() == "in-progress" && !discardAttempted {
		m, _ := ref.ListTransactionRefs(w.rs, w.id)
		later := map[string][]byte{}
		if len(m) == nb && interleave {
			for i, b := range w.branches {
				if n, _, _ := w.newCommits(b); n == 1 {
					head, _ := ref.GetHead(w.rs, b)
					sum, err := commitTable(w.db, w.rs, b, bytes.Repeat([]byte{byte(0x90 + i)}, 16), [][]byte{head}, 200+i)
					if err != nil {
						panic(err)
					}
					later[b] = sum
				}
			}
		}
		if len(m) == nb && len(later) > 0 {
			err, _, _ := w.run(c14op{"commit", "clean", 0})
			if err != nil {
				c.Fail("rerun-error", "re-running commit after the interrupted attempt (and an ordinary commit on the branches it had moved) failed: %v; %s", err, desc)
				return
			}
			for _, b := range w.branches {
				if n := w.txCommits(b); n != 1 {
					c.Fail("rerun-duplicate", "after the interrupted attempt moved some branches, an ordinary commit landed on each of them and commit was re-run, branch %s carries %d commits of the transaction (want exactly 1); %s", b, n, desc)
					return
				}
				if l, ok := later[b]; ok {
					if head, _ := ref.GetHead(w.rs, b); !bytes.Equal(head, l) {
						c.Fail("rerun-duplicate", "the re-run moved branch %s, which the interrupted attempt had already committed (an ordinary commit was made on it in between); %s", b, desc)
						return
					}
				}
			}
			if w.status() != "committed" {
				c.Fail("rerun-incomplete", "after re-running commit the transaction is %q; %s", w.status(), desc)
				return
			}
		} else if len(m) == nb {
			err, _, _ := w.run(c14op{"commit", "clean", 0})
			if err != nil {
				c.Fail("rerun-error", "re-running commit after the interrupted attempt failed: %v; %s", err, desc)
				return
			}
			if !check("after the re-run") {
				return
			}
			for _, b := range w.branches {
				if n, _, _ := w.newCommits(b); n != 1 {
					c.Fail("rerun-incomplete", "after re-running commit branch %s has %d new commits (want exactly 1); %s", b, n, desc)
					return
				}
			}
			if w.status() != "committed" {
				c.Fail("rerun-incomplete", "after re-running commit the transaction is %q; %s", w.status(), desc)
				return
			}
		}
	}
	// an interrupted discard of an uncommitted transaction can be completed by re-running it:
	// afterwards no staged ref is left and no branch has moved
	if discardAttempted && !discarded && w.status() != "committed" {
		before := fmt.Sprint(w.heads())
		err, _, _ := w.run(c14op{"discard", "clean", 0})
		m, _ := ref.ListTransactionRefs(w.rs, w.id)
		if err != nil || len(m) != 0 || w.status() != "gone" {
			c.Fail("discard-rerun-incomplete", "re-running discard after the interrupted attempt: err=%v, %d staged refs remain, transaction is %q; %s", err, len(m), w.status(), desc)
			return
		}
		if before != fmt.Sprint(w.heads()) {
			c.Fail("discard-touched-branch", "re-running discard changed a branch; %s", desc)
			return
		}
	}
	_, _ = committed, discarded
	keys := []string{}
	for _, b := range w.branches {
		n, _, _ := w.newCommits(b)
		keys = append(keys, fmt.Sprint(n))
	}
	sort.Strings(keys)
	c.Outcome(fmt.Sprintf("%s-moved%s", w.status(), strings.Join(keys, "")))
	if len(ops) > 0 {
		c.Nontrivial(desc)
	}
	if c.WantSample() && len(ops) == 2 && ops[0].mode != "clean" {
		c.Sample(desc)
	}
}

func init() {
	register(&mc.Check{
		ID:    "C14",
		Level: "fault_enumeration",
		Rule: "transactions staging 1..3 branches (every new/existing combination; commit order = every permutation of the branch iteration, owned through a build-time overlay of the map range) x every sequence of up to 2 (thorough 3) operations from {commit, discard} x {clean, injected error at store write #k, simulated process death before write #k} for every k up to the number of writes, " +
			"followed by a clean re-run of commit when the transaction is still open. The real transaction.Commit / Discard run on the real SQL ref store (in-memory SQLite) and an in-memory object store behind fault wrappers that number every mutating call of both stores in one sequence. " +
			"Oracle after every step: no branch ever carries more than one commit of the transaction; a committed transaction has moved every branch; a clean commit moves every branch to a commit with the staged table, marks the transaction and logs it with true old/new values; an injected error is reported; " +
			"a committed transaction refuses commit and discard without touching anything; discard removes the staged refs and never touches a branch, and an interrupted discard is completed by a clean re-run of discard; the re-run of commit reaches exactly the all-branches outcome. cli tier: `wrgl transaction commit` and `wrgl transaction discard` on an on-disk repository (one existing and one new branch staged) run as a subprocess killed before every mutating store method and before every SQL statement inside the ref store, reopened, checked and re-run: the re-run must succeed and end exactly where an uninterrupted run ends. evaluations = fault scenarios; non-trivial = at least one operation; distinct by scenario",
		Assumptions: []string{"each store call is atomic (one SQL statement / transaction, one key write); a crash is a process death between two store calls", "staged data are commit objects with fixed table sums (Commit does not read tables)"},
		Harnesses: []*mc.Harness{
			{Name: "cli-killed-transaction", Body: c14CLI, Budget: map[string]time.Duration{"quick": 45 * time.Second, "thorough": 3 * time.Minute}},
			{Name: "fault-sequences", Body: c14Body, DevBound: map[string]int{"quick": 1, "thorough": 1}, Budget: map[string]time.Duration{"quick": 75 * time.Second, "thorough": 14 * time.Minute}},
		},
	})
}
