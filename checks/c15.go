package checks

import (
	"bytes"
	"database/sql"
	"fmt"
	"io"
	"os"
	"path/filepath"
	"sort"
	"strings"
	"time"

	"github.com/wrgl/wrgl/pkg/ref"
	reffs "github.com/wrgl/wrgl/pkg/ref/fs"

	"verif/mc"
	"verif/stores"
)

// C15 — the ref store behaves as a map from exact names to commits with faithful logs.
//
// Explicit-state BFS over mutator sequences on the real SQL ref store. After every
// mutator every observer (Get of every name, Filter / FilterKey for every prefix pair,
// log drain of every name, the list helpers) is compared with a map model.

var (
	c15v1 = bytes.Repeat([]byte{0x11}, 16)
	c15v2 = bytes.Repeat([]byte{0x22}, 16)
)

type c15log struct{ old, new []byte }

type c15model struct {
	refs map[string][]byte
	logs map[string][]c15log
}

type c15op struct {
	name string
	// run executes the op on the store and the model; returns a mismatch message.
	run func(s ref.Store, m *c15model) string
}

type c15group struct {
	names    []string
	prefixes []string // for Filter / FilterKey
	remotes  []string // for ListRemoteRefs
	ops      []c15op
	prelude  []c15op     // run on the fresh store (and the model) before every trace: a non-initial start state
	backend  *c15backend // nil = SQL
}

func c15clone(b []byte) []byte { return append([]byte{}, b...) }

func c15errState(err error) string {
	if err == nil {
		return "ok"
	}
	return "error"
}

func c15setOp(n string, v []byte, tag string) c15op {
	return c15op{name: fmt.Sprintf("Set(%s,%s)", n, tag), run: func(s ref.Store, m *c15model) string {
		if err := s.Set(n, c15clone(v)); err != nil {
			return "Set returned " + err.Error()
		}
		m.refs[n] = v
		return ""
	}}
}

func c15saveRefOp(n string, v []byte, tag string) c15op {
	return c15op{name: fmt.Sprintf("SaveRef(%s,%s)", n, tag), run: func(s ref.Store, m *c15model) string {
		if err := ref.SaveRef(s, n, c15clone(v), "au", "em", "act", "msg-"+tag, nil); err != nil {
			return "SaveRef returned " + err.Error()
		}
		m.logs[n] = append(m.logs[n], c15log{old: m.refs[n], new: v})
		m.refs[n] = v
		return ""
	}}
}

// direct SetWithLog with a deliberately stale OldOID in the passed log: the store must
// record the value the ref really held.
func c15setWithLogOp(n string, v []byte, tag string) c15op {
	return c15op{name: fmt.Sprintf("SetWithLog(%s,%s)", n, tag), run: func(s ref.Store, m *c15model) string {
		rl := &ref.Reflog{NewOID: c15clone(v), AuthorName: "au", Action: "act", Message: "m", Time: time.Unix(1700000000, 0)}
		if err := s.SetWithLog(n, c15clone(v), rl); err != nil {
			return "SetWithLog returned " + err.Error()
		}
		m.logs[n] = append(m.logs[n], c15log{old: m.refs[n], new: v})
		m.refs[n] = v
		return ""
	}}
}

func c15deleteOp(n string) c15op {
	return c15op{name: fmt.Sprintf("Delete(%s)", n), run: func(s ref.Store, m *c15model) string {
		if err := s.Delete(n); err != nil {
			if _, ok := m.refs[n]; !ok {
				return "" // deleting an absent name may be refused (file store); the observers check nothing changed
			}
			return "Delete returned " + err.Error()
		}
		delete(m.refs, n)
		delete(m.logs, n)
		return ""
	}}
}

func c15renameOp(o, n string) c15op {
	return c15op{name: fmt.Sprintf("Rename(%s,%s)", o, n), run: func(s ref.Store, m *c15model) string {
		err := s.Rename(o, n)
		_, srcOK := m.refs[o]
		_, dstOK := m.refs[n]
		switch {
		case !srcOK:
			if err == nil {
				return "Rename of an absent ref succeeded"
			}
		case dstOK || o == n:
			// SQL refuses, the file store overwrites: accept "error, nothing changed" or "overwritten"
			if err == nil {
				m.refs[n] = m.refs[o]
				m.logs[n] = m.logs[o]
				if o != n {
					delete(m.refs, o)
					delete(m.logs, o)
				}
				if len(m.logs[n]) == 0 {
					delete(m.logs, n)
				}
				return "RESYNC-LOG:" + n
			}
		default:
			if err != nil {
				return "Rename returned " + err.Error()
			}
			m.refs[n] = m.refs[o]
			delete(m.refs, o)
			if l, ok := m.logs[o]; ok {
				m.logs[n] = l
				delete(m.logs, o)
			}
		}
		return ""
	}}
}

func c15copyOp(src, dst string) c15op {
	return c15op{name: fmt.Sprintf("Copy(%s,%s)", src, dst), run: func(s ref.Store, m *c15model) string {
		err := s.Copy(src, dst)
		_, srcOK := m.refs[src]
		_, dstOK := m.refs[dst]
		switch {
		case !srcOK:
			if err == nil {
				return "Copy of an absent ref succeeded"
			}
		case dstOK:
			if err == nil {
				m.refs[dst] = m.refs[src]
				m.logs[dst] = append([]c15log{}, m.logs[src]...)
				if len(m.logs[dst]) == 0 {
					delete(m.logs, dst)
				}
				return "RESYNC-LOG:" + dst
			}
		default:
			if err != nil {
				return "Copy returned " + err.Error()
			}
			m.refs[dst] = m.refs[src]
			if l, ok := m.logs[src]; ok {
				m.logs[dst] = append([]c15log{}, l...)
			}
		}
		return ""
	}}
}

func c15deleteAllRemoteOp(remote string) c15op {
	return c15op{name: fmt.Sprintf("DeleteAllRemoteRefs(%s)", remote), run: func(s ref.Store, m *c15model) string {
		if err := ref.DeleteAllRemoteRefs(s, remote); err != nil {
			return "DeleteAllRemoteRefs returned " + err.Error()
		}
		p := "remotes/" + remote + "/"
		for k := range m.refs {
			if strings.HasPrefix(k, p) {
				delete(m.refs, k)
				delete(m.logs, k)
			}
		}
		return ""
	}}
}

func c15renameAllRemoteOp(o, n string) c15op {
	return c15op{name: fmt.Sprintf("RenameAllRemoteRefs(%s,%s)", o, n), run: func(s ref.Store, m *c15model) string {
		p := "remotes/" + o + "/"
		q := "remotes/" + n + "/"
		conflict := false
		var moved []string
		for k := range m.refs {
			if strings.HasPrefix(k, p) {
				moved = append(moved, k)
				if _, ok := m.refs[q+k[len(p):]]; ok {
					conflict = true
				}
			}
		}
		err := ref.RenameAllRemoteRefs(s, o, n)
		if conflict {
			// outcome with a pre-existing destination is store-specific: resync the model from the store
			return "RESYNC"
		}
		if err != nil {
			return "RenameAllRemoteRefs returned " + err.Error()
		}
		for _, k := range moved {
			nk := q + k[len(p):]
			m.refs[nk] = m.refs[k]
			delete(m.refs, k)
			if l, ok := m.logs[k]; ok {
				m.logs[nk] = l
				delete(m.logs, k)
			}
		}
		return ""
	}}
}

func c15hasAnyPrefix(s string, ps []string) bool {
	for _, p := range ps {
		if strings.HasPrefix(s, p) {
			return true
		}
	}
	return false
}

// c15observe compares every observer with the model.
func c15observe(s ref.Store, m *c15model, g *c15group) string {
	for _, n := range g.names {
		v, err := s.Get(n)
		want, ok := m.refs[n]
		if ok {
			if err != nil {
				return fmt.Sprintf("Get(%q) returned %v, model holds %x", n, err, want)
			}
			if !bytes.Equal(v, want) {
				return fmt.Sprintf("Get(%q)=%x, model holds %x", n, v, want)
			}
		} else if err == nil {
			return fmt.Sprintf("Get(%q)=%x, model has no such ref", n, v)
		} else if err != ref.ErrKeyNotFound {
			return fmt.Sprintf("Get(%q) of an absent ref returned %v, not ErrKeyNotFound", n, err)
		}
		// log
		r, err := s.LogReader(n)
		wl := m.logs[n]
		if len(wl) == 0 {
			if err == nil {
				// a reader over nothing is tolerated only if it is empty
				if _, e2 := r.Read(); e2 != io.EOF {
					return fmt.Sprintf("LogReader(%q) yields entries, model has none", n)
				}
				r.Close()
			}
		} else {
			if err != nil {
				return fmt.Sprintf("LogReader(%q) returned %v, model has %d entries", n, err, len(wl))
			}
			for i := len(wl) - 1; i >= 0; i-- {
				rl, err := r.Read()
				if err != nil {
					return fmt.Sprintf("LogReader(%q).Read #%d returned %v, model has %d entries", n, len(wl)-1-i, err, len(wl))
				}
				if !bytes.Equal(rl.NewOID, wl[i].new) {
					return fmt.Sprintf("log of %q entry (newest-first #%d): new=%x, model %x", n, len(wl)-1-i, rl.NewOID, wl[i].new)
				}
				if !c15oidEq(rl.OldOID, wl[i].old) {
					return fmt.Sprintf("log of %q entry (newest-first #%d): old=%x, but the ref held %x just before", n, len(wl)-1-i, rl.OldOID, wl[i].old)
				}
			}
			if _, err := r.Read(); err != io.EOF {
				return fmt.Sprintf("log of %q has more entries than the %d the model has", n, len(wl))
			}
			r.Close()
		}
	}
	// the file store implements Filter / FilterKey for one prefix that ends at a path separator and no exclusion
	fsMode := g.backend != nil && g.backend.fs
	nots := append([]string{""}, g.prefixes...)
	for _, p := range g.prefixes {
		if fsMode && p != "" && !strings.HasSuffix(p, "/") {
			continue
		}
		for ni, np := range nots {
			if fsMode && ni > 0 {
				break
			}
			var ps, nps []string
			if p != "" {
				ps = []string{p}
			}
			if ni > 0 {
				if np == "" {
					continue
				}
				nps = []string{np}
			}
			want := map[string][]byte{}
			for k, v := range m.refs {
				if (len(ps) == 0 || c15hasAnyPrefix(k, ps)) && !c15hasAnyPrefix(k, nps) {
					want[k] = v
				}
			}
			got, err := s.Filter(ps, nps)
			if err != nil {
				return fmt.Sprintf("Filter(%q,%q) returned %v", ps, nps, err)
			}
			if d := c15mapDiff(got, want); d != "" {
				return fmt.Sprintf("Filter(%q, not %q): %s", ps, nps, d)
			}
			keys, err := s.FilterKey(ps, nps)
			if err != nil {
				return fmt.Sprintf("FilterKey(%q,%q) returned %v", ps, nps, err)
			}
			gk := map[string][]byte{}
			for _, k := range keys {
				if _, dup := gk[k]; dup {
					return fmt.Sprintf("FilterKey(%q,%q) lists %q twice", ps, nps, k)
				}
				gk[k] = want[k]
				if _, ok := want[k]; !ok {
					return fmt.Sprintf("FilterKey(%q, not %q) lists %q which does not literally match", ps, nps, k)
				}
			}
			if len(gk) != len(want) {
				return fmt.Sprintf("FilterKey(%q, not %q) lists %d names, model %d", ps, nps, len(gk), len(want))
			}
		}
	}
	// two prefixes at once, in both orders, without and with an exclusion drawn from either prefix's subtree
	if len(g.prefixes) >= 3 && !fsMode {
		np := len(g.prefixes)
		if np > 5 {
			np = 5
		}
		for a := 1; a < np; a++ {
			for b := 1; b < np; b++ {
				if a == b {
					continue
				}
				ps := []string{g.prefixes[a], g.prefixes[b]}
				var excl [][]string
				excl = append(excl, nil)
				for _, n := range g.names {
					if c15hasAnyPrefix(n, ps) {
						excl = append(excl, []string{n})
					}
				}
				for _, nps := range excl {
					want := map[string][]byte{}
					for k, v := range m.refs {
						if c15hasAnyPrefix(k, ps) && !c15hasAnyPrefix(k, nps) {
							want[k] = v
						}
					}
					got, err := s.Filter(ps, nps)
					if err != nil {
						return fmt.Sprintf("Filter(%q, not %q) returned %v", ps, nps, err)
					}
					if d := c15mapDiff(got, want); d != "" {
						return fmt.Sprintf("Filter(%q, not %q): %s", ps, nps, d)
					}
				}
			}
		}
	}
	for _, r := range g.remotes {
		got, err := ref.ListRemoteRefs(s, r)
		if err != nil {
			return fmt.Sprintf("ListRemoteRefs(%q) returned %v", r, err)
		}
		want := map[string][]byte{}
		p := "remotes/" + r + "/"
		for k, v := range m.refs {
			if strings.HasPrefix(k, p) {
				want[k[len(p):]] = v
			}
		}
		if d := c15mapDiff(got, want); d != "" {
			return fmt.Sprintf("ListRemoteRefs(%q): %s", r, d)
		}
	}
	{
		got, err := ref.ListHeads(s)
		if err != nil {
			return "ListHeads returned " + err.Error()
		}
		want := map[string][]byte{}
		for k, v := range m.refs {
			if strings.HasPrefix(k, "heads/") {
				want[k[6:]] = v
			}
		}
		if d := c15mapDiff(got, want); d != "" {
			return "ListHeads: " + d
		}
		all, err := ref.ListAllRefs(s)
		if err != nil {
			return "ListAllRefs returned " + err.Error()
		}
		if d := c15mapDiff(all, m.refs); d != "" {
			return "ListAllRefs: " + d
		}
		if fsMode {
			return ""
		}
		loc, err := ref.ListLocalRefs(s, nil, nil)
		if err != nil {
			return "ListLocalRefs returned " + err.Error()
		}
		want = map[string][]byte{}
		for k, v := range m.refs {
			if !strings.HasPrefix(k, "remotes/") {
				want[k] = v
			}
		}
		if d := c15mapDiff(loc, want); d != "" {
			return "ListLocalRefs: " + d
		}
	}
	return ""
}

func c15oidEq(got, want []byte) bool {
	if len(want) == 0 {
		return len(got) == 0 || bytes.Equal(got, make([]byte, 16))
	}
	return bytes.Equal(got, want)
}

func c15mapDiff(got, want map[string][]byte) string {
	var ks []string
	for k := range got {
		ks = append(ks, k)
	}
	for k := range want {
		if _, ok := got[k]; !ok {
			ks = append(ks, k)
		}
	}
	sort.Strings(ks)
	for _, k := range ks {
		g, gok := got[k]
		w, wok := want[k]
		switch {
		case gok && !wok:
			return fmt.Sprintf("returned %q which the model does not list", k)
		case !gok && wok:
			return fmt.Sprintf("did not return %q", k)
		case !bytes.Equal(g, w):
			return fmt.Sprintf("%q=%x, model %x", k, g, w)
		}
	}
	return ""
}

// c15dump is the observable implementation state: every ref row and every reflog row.
func c15dump(db *sql.DB) (string, *c15model, error) {
	var sb strings.Builder
	m := &c15model{refs: map[string][]byte{}, logs: map[string][]c15log{}}
	rows, err := db.Query(`SELECT name, sum FROM refs ORDER BY name`)
	if err != nil {
		return "", nil, err
	}
	for rows.Next() {
		var n string
		var v []byte
		if err := rows.Scan(&n, &v); err != nil {
			rows.Close()
			return "", nil, err
		}
		fmt.Fprintf(&sb, "%s=%x;", n, v)
		m.refs[n] = v
	}
	rows.Close()
	rows, err = db.Query(`SELECT ref, ordinal, oldoid, newoid FROM reflogs ORDER BY ref, ordinal`)
	if err != nil {
		return "", nil, err
	}
	for rows.Next() {
		var n string
		var o int
		var a, b []byte
		if err := rows.Scan(&n, &o, &a, &b); err != nil {
			rows.Close()
			return "", nil, err
		}
		fmt.Fprintf(&sb, "L %s#%d %x>%x;", n, o, a, b)
		m.logs[n] = append(m.logs[n], c15log{a, b})
	}
	rows.Close()
	return sb.String(), m, nil
}

// c15backend opens a fresh store; dump returns the observable implementation state as a key and as a model.
type c15backend struct {
	name string
	fs   bool
	open func() (s ref.Store, dump func() (string, *c15model, error), done func())
}

var c15sqlBackend = &c15backend{name: "sql", open: func() (ref.Store, func() (string, *c15model, error), func()) {
	s, db, done := stores.NewMemRefStore()
	return s, func() (string, *c15model, error) { return c15dump(db) }, done
}}

var c15fsSeq int64

// the file store on a private directory under /dev/shm (or TMPDIR); the state is every file under refs/ and logs/
var c15fsBackend = &c15backend{name: "fs", fs: true, open: func() (ref.Store, func() (string, *c15model, error), func()) {
	base := os.Getenv("VERIF_SHM")
	if base == "" {
		if st, err := os.Stat("/dev/shm"); err == nil && st.IsDir() {
			base = "/dev/shm"
		} else {
			base = os.TempDir()
		}
	}
	dir, err := os.MkdirTemp(base, "verif-c15fs-")
	if err != nil {
		panic("mc: infrastructure: " + err.Error())
	}
	s := reffs.NewStore(dir)
	return s, func() (string, *c15model, error) { return c15dumpFS(dir) }, func() { os.RemoveAll(dir) }
}}

// c15dumpFS reads the directory tree itself (not through the store): ref files and raw log files.
func c15dumpFS(dir string) (string, *c15model, error) {
	var sb strings.Builder
	m := &c15model{refs: map[string][]byte{}, logs: map[string][]c15log{}}
	for _, sub := range []string{"refs", "logs"} {
		root := filepath.Join(dir, sub)
		var files []string
		filepath.Walk(root, func(p string, info os.FileInfo, err error) error {
			if err == nil && !info.IsDir() {
				files = append(files, p)
			}
			return nil
		})
		sort.Strings(files)
		for _, p := range files {
			b, err := os.ReadFile(p)
			if err != nil {
				return "", nil, err
			}
			n := filepath.ToSlash(strings.TrimPrefix(p, root+string(filepath.Separator)))
			if sub == "refs" {
				fmt.Fprintf(&sb, "%s=%x;", n, b)
				m.refs[n] = b
				continue
			}
			for i, line := range strings.Split(string(b), "\n") {
				if line == "" {
					continue
				}
				rec := &ref.Reflog{}
				if _, err := rec.Read([]byte(line)); err != nil {
					return "", nil, fmt.Errorf("log file of %s line %d: %v", n, i, err)
				}
				fmt.Fprintf(&sb, "L %s#%d %x>%x;", n, i, rec.OldOID, rec.NewOID)
				m.logs[n] = append(m.logs[n], c15log{rec.OldOID, rec.NewOID})
			}
		}
	}
	return sb.String(), m, nil
}

func c15exec(g *c15group, trace []int) (key, class, vio string) {
	be := g.backend
	if be == nil {
		be = c15sqlBackend
	}
	s, dump, done := be.open()
	defer done()
	m := &c15model{refs: map[string][]byte{}, logs: map[string][]c15log{}}
	desc := func(i int) string {
		var l []string
		for _, op := range trace[:i+1] {
			l = append(l, g.ops[op].name)
		}
		return strings.Join(l, " ; ")
	}
	for i, op := range g.prelude {
		if msg := op.run(s, m); msg != "" {
			return "", c15class(msg), fmt.Sprintf("%s; at step %d of the prelude (%s)", msg, i+1, op.name)
		}
	}
	if len(trace) == 0 && len(g.prelude) > 0 {
		if msg := c15observe(s, m, g); msg != "" {
			return "", c15class(msg), fmt.Sprintf("%s; after the prelude of %d logged updates", msg, len(g.prelude))
		}
	}
	for i, op := range trace {
		msg := g.ops[op].run(s, m)
		if msg == "RESYNC" {
			_, mm, err := dump()
			if err != nil {
				return "", "error", err.Error()
			}
			m = mm
			msg = ""
		}
		if strings.HasPrefix(msg, "RESYNC-LOG:") {
			// what the destination's log holds after an overwrite is store-specific on the file store only
			if be.fs {
				n := msg[len("RESYNC-LOG:"):]
				_, mm, err := dump()
				if err != nil {
					return "", "error", err.Error()
				}
				if l, ok := mm.logs[n]; ok {
					m.logs[n] = l
				} else {
					delete(m.logs, n)
				}
			}
			msg = ""
		}
		if msg != "" {
			return "", c15class(msg), fmt.Sprintf("%s; after [%s]", msg, desc(i))
		}
		// only the last step needs the full observation: earlier prefixes were observed when
		// they were themselves the end of a (shorter) explored trace
		if i == len(trace)-1 {
			if msg := c15observe(s, m, g); msg != "" {
				return "", c15class(msg), fmt.Sprintf("%s; after [%s]", msg, desc(i))
			}
		}
	}
	k, _, err := dump()
	if err != nil {
		return "", "error", err.Error()
	}
	// model state is a function of the dump when they agree; include it anyway
	var ms []string
	for n, v := range m.refs {
		ms = append(ms, fmt.Sprintf("%s=%x", n, v))
	}
	for n, l := range m.logs {
		for i, e := range l {
			ms = append(ms, fmt.Sprintf("L%s#%d %x>%x", n, i, e.old, e.new))
		}
	}
	sort.Strings(ms)
	return k + "||" + strings.Join(ms, ";"), "", ""
}

func c15class(msg string) string {
	switch {
	case strings.HasPrefix(msg, "Filter"), strings.HasPrefix(msg, "FilterKey"), strings.HasPrefix(msg, "List"):
		return "prefix-filter"
	case strings.HasPrefix(msg, "log of"), strings.HasPrefix(msg, "LogReader"):
		return "reflog"
	case strings.HasPrefix(msg, "Get"):
		return "get"
	}
	return "op-result"
}

func c15groupHeads() *c15group {
	g := &c15group{
		names:    []string{"heads/a", "heads/A", "heads/a_b", "heads/axb", "heads/a%", "heads/ab", "heads/a/b"},
		prefixes: []string{"", "heads/", "heads/a", "heads/A", "heads/a_", "heads/a%", "heads/a/", "heads/a_b"},
	}
	for _, n := range g.names {
		g.ops = append(g.ops, c15setOp(n, c15v1, "v1"))
	}
	for _, n := range []string{"heads/a", "heads/a_b", "heads/A"} {
		g.ops = append(g.ops, c15saveRefOp(n, c15v2, "v2"))
		g.ops = append(g.ops, c15deleteOp(n))
	}
	g.ops = append(g.ops, c15setWithLogOp("heads/a_b", c15v1, "v1"))
	g.ops = append(g.ops, c15renameOp("heads/a_b", "heads/axb"), c15renameOp("heads/a", "heads/A"), c15renameOp("heads/a%", "heads/a/b"),
		c15copyOp("heads/a", "heads/ab"), c15copyOp("heads/a_b", "heads/a%"))
	return g
}

func c15groupRemotes() *c15group {
	g := &c15group{
		names:    []string{"remotes/o/x", "remotes/o_/x", "remotes/oX/x", "remotes/O/x", "remotes/o/y", "remotes/o/f/x", "remotes/n/x", "remotes/n/f/x", "remotes/n/y", "heads/x"},
		prefixes: []string{"", "remotes/", "remotes/o/", "remotes/o/f/", "remotes/o_/", "remotes/oX/", "remotes/O/", "remotes/n/", "remotes/o"},
		remotes:  []string{"o", "o_", "oX", "O", "n", "o%"},
	}
	// remotes/o/f/x: a remote-tracking branch whose own name contains a slash
	for _, n := range []string{"remotes/o/x", "remotes/o_/x", "remotes/oX/x", "remotes/O/x", "remotes/o/y", "remotes/o/f/x", "heads/x"} {
		g.ops = append(g.ops, c15saveRefOp(n, c15v1, "v1"))
	}
	g.ops = append(g.ops, c15saveRefOp("remotes/o_/x", c15v2, "v2"), c15setOp("remotes/oX/x", c15v2, "v2"))
	for _, r := range []string{"o", "o_", "oX", "O", "o%"} {
		g.ops = append(g.ops, c15deleteAllRemoteOp(r))
	}
	for _, r := range []string{"o", "o_", "O"} {
		g.ops = append(g.ops, c15renameAllRemoteOp(r, "n"))
	}
	g.ops = append(g.ops, c15deleteOp("remotes/o_/x"), c15renameOp("remotes/o/x", "remotes/o/y"), c15copyOp("remotes/o_/x", "remotes/n/x"))
	return g
}

// c15groupLongLogs starts from refs that already carry long reflogs (17 and 9 entries: more than one
// and exactly one entry beyond any 8-entry read window), then renames / copies / deletes / updates them.
func c15groupLongLogs() *c15group { return c15groupLongLogsN(17, 9, nil) }

// logs one entry beyond, and one entry beyond twice, a read window of 64 entries (and of any smaller power of two)
func c15groupLongerLogs(be *c15backend) *c15group { return c15groupLongLogsN(129, 65, be) }

func c15groupLongLogsN(nA, nB int, be *c15backend) *c15group {
	g := &c15group{
		names:    []string{"heads/a", "heads/a_b", "heads/axb", "heads/a%", "heads/ab"},
		prefixes: []string{"", "heads/", "heads/a", "heads/a_"},
	}
	vals := [][]byte{c15v1, c15v2}
	tags := []string{"v1", "v2"}
	g.backend = be
	for i := 0; i < nA; i++ {
		g.prelude = append(g.prelude, c15saveRefOp("heads/a_b", vals[i%2], tags[i%2]))
	}
	for i := 0; i < nB; i++ {
		g.prelude = append(g.prelude, c15saveRefOp("heads/a", vals[i%2], tags[i%2]))
	}
	if be != nil && be.fs {
		// the file store writes the entry it is handed: logged updates only through ref.SaveRef
		g.prefixes = []string{"", "heads/"}
		g.ops = append(g.ops, c15saveRefOp("heads/a_b", c15v2, "v2"), c15saveRefOp("heads/a", c15v2, "v2"),
			c15deleteOp("heads/a_b"), c15deleteOp("heads/a"),
			c15renameOp("heads/a_b", "heads/axb"), c15renameOp("heads/a", "heads/a%"),
			c15copyOp("heads/a_b", "heads/a%"), c15copyOp("heads/a", "heads/ab"), c15setOp("heads/a_b", c15v1, "v1"))
		return g
	}
	g.ops = append(g.ops, c15saveRefOp("heads/a_b", c15v2, "v2"), c15saveRefOp("heads/a", c15v2, "v2"), c15setWithLogOp("heads/a_b", c15v1, "v1"),
		c15deleteOp("heads/a_b"), c15deleteOp("heads/a"),
		c15renameOp("heads/a_b", "heads/axb"), c15renameOp("heads/a", "heads/a%"),
		c15copyOp("heads/a_b", "heads/a%"), c15copyOp("heads/a", "heads/ab"), c15setOp("heads/a_b", c15v1, "v1"))
	return g
}

// File store: names without a ref that is also a directory of another ref (a file system cannot hold both,
// as in git); logged updates go through ref.SaveRef, which supplies the old value (the file store writes the
// entry it is handed). The second group starts from logs longer than the backward scanner's 1024-byte window.
func c15groupFS() *c15group {
	g := &c15group{
		backend:  c15fsBackend,
		names:    []string{"heads/a", "heads/A", "heads/a_b", "heads/a%", "heads/ab", "heads/n/b", "remotes/o/x", "remotes/o_/x", "remotes/o/f/x", "remotes/n/x"},
		prefixes: []string{"", "heads/", "heads/n/", "remotes/", "remotes/o/", "remotes/o_/", "remotes/o/f/"},
		remotes:  []string{"o", "o_", "n", "O"},
	}
	for _, n := range []string{"heads/a", "heads/A", "heads/a%", "heads/n/b", "remotes/o/f/x"} {
		g.ops = append(g.ops, c15setOp(n, c15v1, "v1"))
	}
	for _, n := range []string{"heads/a", "heads/a_b", "remotes/o/x", "remotes/o_/x"} {
		g.ops = append(g.ops, c15saveRefOp(n, c15v1, "v1"))
	}
	g.ops = append(g.ops, c15saveRefOp("heads/a", c15v2, "v2"), c15saveRefOp("remotes/o/x", c15v2, "v2"))
	for _, n := range []string{"heads/a", "heads/a_b", "heads/n/b", "remotes/o/x"} {
		g.ops = append(g.ops, c15deleteOp(n))
	}
	g.ops = append(g.ops, c15renameOp("heads/a", "heads/ab"), c15renameOp("heads/a_b", "heads/n/b"), c15renameOp("heads/a", "heads/A"),
		c15copyOp("heads/a", "heads/ab"), c15copyOp("heads/a_b", "heads/a%"), c15copyOp("remotes/o/x", "remotes/n/x"),
		c15deleteAllRemoteOp("o"), c15deleteAllRemoteOp("o_"), c15renameAllRemoteOp("o", "n"), c15renameAllRemoteOp("o_", "n"))
	return g
}

func c15groupFSLongLogs() *c15group {
	g := &c15group{
		backend:  c15fsBackend,
		names:    []string{"heads/a", "heads/a_b", "heads/axb", "heads/a%", "heads/ab"},
		prefixes: []string{"", "heads/"},
	}
	vals := [][]byte{c15v1, c15v2}
	tags := []string{"v1", "v2"}
	for i := 0; i < 23; i++ {
		g.prelude = append(g.prelude, c15saveRefOp("heads/a_b", vals[i%2], tags[i%2]))
	}
	for i := 0; i < 9; i++ {
		g.prelude = append(g.prelude, c15saveRefOp("heads/a", vals[i%2], tags[i%2]))
	}
	g.ops = append(g.ops, c15saveRefOp("heads/a_b", c15v2, "v2"), c15saveRefOp("heads/a", c15v2, "v2"),
		c15deleteOp("heads/a_b"), c15deleteOp("heads/a"),
		c15renameOp("heads/a_b", "heads/axb"), c15renameOp("heads/a", "heads/a%"),
		c15copyOp("heads/a_b", "heads/a%"), c15copyOp("heads/a", "heads/ab"), c15setOp("heads/a_b", c15v1, "v1"), c15setOp("heads/ab", c15v1, "v1"))
	return g
}

func c15harness(name string, g *c15group, depth map[string]int) *mc.Harness {
	spec := func(d int) *mc.BFSSpec {
		return &mc.BFSSpec{
			NumOps:   len(g.ops),
			MaxDepth: d,
			Exec:     func(tr []int) (string, string, string) { return c15exec(g, tr) },
			OpName:   func(op int) string { return g.ops[op].name },
		}
	}
	return &mc.Harness{
		Name:   name,
		Budget: map[string]time.Duration{"quick": 45 * time.Second, "thorough": 10 * time.Minute},
		InProc: func(r *mc.Run) { mc.BFS(r, spec(depth[r.Tier])) },
		ReplayTrace: func(tr []int) (string, string) {
			_, c, v := c15exec(g, tr)
			return c, v
		},
	}
}

func init() {
	register(&mc.Check{
		ID:    "C15",
		Level: "model_checking",
		Rule: "explicit-state BFS over mutator sequences (Set, SaveRef/SetWithLog, Delete, Rename, Copy, DeleteAllRemoteRefs, RenameAllRemoteRefs) on the real SQL ref store " +
			"(in-memory SQLite, the repository's schema) over names containing '_', '%', case variants, nested paths and prefixes of one another; " +
			"a state is the dump of every refs row and every reflogs row; after every transition every observer (Get and log drain of every name, Filter/FilterKey for every " +
			"(prefix, not-prefix) pair drawn from the names' own prefixes, Filter with two prefixes in both orders with and without an excluded name, ListHeads, ListRemoteRefs, ListAllRefs, ListLocalRefs) is compared with a map + per-name log slices model. " +
			"A third search starts from a non-initial state: two refs that already carry reflogs of 17 and 9 entries (log reads that page, copy/rename of long logs). " +
			"distinct_nontrivial = distinct states reached",
		Assumptions: []string{
			"rename/copy onto an existing name may either fail leaving everything unchanged (SQL store) or overwrite (file store); both are accepted",
			"FilterKey is compared as a set (order not asserted)",
			"RenameAllRemoteRefs onto a remote that already has the same ref name is store-specific; the model resynchronises from the store in that case",
			"values are two fixed 16-byte sums; log metadata (author, time, message) is not compared",
		},
		Harnesses: []*mc.Harness{
			c15harness("bfs-sql-heads", c15groupHeads(), map[string]int{"quick": 4, "thorough": 6}),
			c15harness("bfs-sql-remotes", c15groupRemotes(), map[string]int{"quick": 4, "thorough": 6}),
			c15harness("bfs-sql-long-logs", c15groupLongLogs(), map[string]int{"quick": 3, "thorough": 5}),
			c15harness("bfs-sql-longer-logs", c15groupLongerLogs(nil), map[string]int{"quick": 3, "thorough": 5}),
			c15harness("bfs-fs-longer-logs", c15groupLongerLogs(c15fsBackend), map[string]int{"quick": 3, "thorough": 5}),
			c15harness("bfs-fs", c15groupFS(), map[string]int{"quick": 4, "thorough": 6}),
			c15harness("bfs-fs-long-logs", c15groupFSLongLogs(), map[string]int{"quick": 4, "thorough": 6}),
		},
	})
}
