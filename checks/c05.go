package checks

import (
	"context"
	"fmt"
	"runtime"
	"sort"
	"strings"
	"time"

	"github.com/go-logr/logr"
	"github.com/wrgl/wrgl/pkg/diff"
	"github.com/wrgl/wrgl/pkg/ingest"
	"github.com/wrgl/wrgl/pkg/merge"
	"github.com/wrgl/wrgl/pkg/objects"
	"github.com/wrgl/wrgl/pkg/slice"
	"github.com/wrgl/wrgl/pkg/sorter"

	"verif/mc"
	"verif/model"
	"verif/stores"
)

// C05 — three-way merge keeps all non-conflicting changes, never silently alters data.

// a logical table: column names, name of the key column ("" = keyless), rows as name->value
type ltable struct {
	cols []string
	pk   string
	rows []map[string]string
}

func (t *ltable) matrix() [][]string {
	var out [][]string
	for _, r := range t.rows {
		row := make([]string, len(t.cols))
		for i, c := range t.cols {
			row[i] = r[c]
		}
		out = append(out, row)
	}
	return out
}

func (t *ltable) pkIdx() []int {
	if t.pk == "" {
		return nil
	}
	for i, c := range t.cols {
		if c == t.pk {
			return []int{i}
		}
	}
	panic("pk column missing")
}

func (t *ltable) String() string {
	return fmt.Sprintf("{cols=%q pk=%q rows=%s}", t.cols, t.pk, shortRows(t.matrix()))
}

func (t *ltable) store() *storedTable { return storeTable(t.cols, t.pkIdx(), t.matrix()) }

// rowSet renders rows as a sorted list of "col=val;..." (by column name, so layout-independent)
func rowSetByName(cols []string, rows [][]string) []string {
	var out []string
	for _, r := range rows {
		var cells []string
		for i, c := range cols {
			v := ""
			if i < len(r) {
				v = r[i]
			}
			cells = append(cells, fmt.Sprintf("%s=%q", c, v))
		}
		sort.Strings(cells)
		out = append(out, strings.Join(cells, ";"))
	}
	sort.Strings(out)
	return out
}

type mergeOutcome struct {
	cols      []string
	pk        []string
	rows      [][]string
	conflicts []string // key hashes (hex) of unresolved merges
	tblSum    []byte
	db        objects.Store
}

// runMerge follows the CLI's flow: Start, collect conflicts, discard them, removed columns =
// union of every layer's removed columns, then SortedRows (and, on a second merger, SortedBlocks
// -> IngestTableFromBlocks as commitMergeResult does).
func runMerge(base *storedTable, others []*storedTable, viaBlocks bool) (out *mergeOutcome, err error) {
	// writes of the merge go to a scratch layer: the fixtures stay as ingested
	db := stores.NewOverlay(tableCacheDB)
	tbls := []*objects.Table{base.tbl}
	var otherTs []*objects.Table
	var otherSums [][]byte
	for _, o := range others {
		tbls = append(tbls, o.tbl)
		otherTs = append(otherTs, o.tbl)
		otherSums = append(otherSums, o.sum)
	}
	buf, err := diff.BlockBufferWithSingleStore(db, tbls)
	if err != nil {
		return nil, err
	}
	collector, cleanup, err := merge.CreateRowCollector(db, base.tbl)
	if err != nil {
		return nil, err
	}
	defer cleanup()
	merger, err := merge.NewMerger(db, collector, buf, 65*time.Millisecond, base.tbl, otherTs, base.sum, otherSums, logr.Discard())
	if err != nil {
		return nil, err
	}
	mch, err := merger.Start()
	if err != nil {
		return nil, fmt.Errorf("Start: %v", err)
	}
	out = &mergeOutcome{db: db}
	var cd *diff.ColDiff
	var pending []*merge.Merge
	for m := range mch {
		if m.ColDiff != nil {
			cd = m.ColDiff
			continue
		}
		pending = append(pending, m)
	}
	// as the CLI does (merge_cmd.go): the channel is drained first, conflicts are discarded
	// afterwards - the collector goroutine has finished by then
	for _, m := range pending {
		out.conflicts = append(out.conflicts, fmt.Sprintf("%x", m.PK))
		if err := merger.SaveResolvedRow(m.PK, nil); err != nil {
			return nil, fmt.Errorf("SaveResolvedRow: %v", err)
		}
	}
	if err := merger.Error(); err != nil {
		return nil, fmt.Errorf("merge error: %v", err)
	}
	if cd == nil {
		return nil, fmt.Errorf("no column diff emitted")
	}
	sort.Strings(out.conflicts)
	removed := map[int]struct{}{}
	for _, layer := range cd.Removed {
		for col := range layer {
			removed[int(col)] = struct{}{}
		}
	}
	out.cols = merger.Columns(removed)
	out.pk = merger.PK()
	ctx, cancel := context.WithCancel(context.Background())
	defer cancel()
	if !viaBlocks {
		rc, err := merger.SortedRows(ctx, removed)
		if err != nil {
			return nil, fmt.Errorf("SortedRows: %v", err)
		}
		for blk := range rc {
			for _, r := range blk.Rows {
				out.rows = append(out.rows, append([]string{}, r...))
			}
		}
		if err := merger.Error(); err != nil {
			return nil, fmt.Errorf("SortedRows error: %v", err)
		}
		return out, nil
	}
	pk, err := slice.KeyIndices(out.cols, out.pk)
	if err != nil {
		return nil, fmt.Errorf("KeyIndices: %v", err)
	}
	blocks, err := merger.SortedBlocks(ctx, removed)
	if err != nil {
		return nil, fmt.Errorf("SortedBlocks: %v", err)
	}
	s, err := sorter.NewSorter()
	if err != nil {
		return nil, err
	}
	sum, err := ingest.IngestTableFromBlocks(db, s, out.cols, pk, blocks, logr.Discard(), ingest.WithNumWorkers(1))
	if err != nil {
		return nil, fmt.Errorf("IngestTableFromBlocks: %v", err)
	}
	if err := merger.Error(); err != nil {
		return nil, fmt.Errorf("SortedBlocks error: %v", err)
	}
	tbl, err := objects.GetTable(db, sum)
	if err != nil {
		return nil, err
	}
	if err := ingest.ProfileTable(db, sum, tbl); err != nil {
		return nil, err
	}
	out.tblSum = sum
	out.rows, err = model.TableRows(db, tbl)
	return out, err
}

var c05keys = []string{"a", "b", "c"}

// branch edit of one key: 0 keep, 1 c1<-p, 2 c1<-q, 3 c2<-p, 4 remove, 5 c1<-p and c2<-p, 6 c1<-” (key in base)
//
//	0 absent, 1 add (p,q), 2 add (q,q), 3 add (p,p), 4 add ('',q)  (key not in base)
//
// column op: 0 none, 1 add column d, 2 remove c2, 3 swap c1 c2, 4 rename c2->e
type c05branch struct {
	edits [3]int
	colOp int
}

func c05base(mask, pos int, keyless bool, filler int) *ltable {
	order := [][]string{{"k", "c1", "c2"}, {"c1", "k", "c2"}, {"c1", "c2", "k"}}[pos]
	t := &ltable{cols: order, pk: "k"}
	if keyless {
		t.pk = ""
	}
	for i, k := range c05keys {
		if mask&(1<<uint(i)) != 0 {
			t.rows = append(t.rows, map[string]string{"k": k, "c1": "x", "c2": "y"})
		}
	}
	switch filler {
	case 1:
		for i := 0; i < 5; i++ {
			t.rows = append(t.rows, map[string]string{"k": fmt.Sprintf("m%d", i), "c1": "f", "c2": "g"})
		}
	case 2:
		// more rows than the standard library sorts by insertion (12), on both sides of the
		// edited keys: the collector's sorter is then no longer stable
		for i := 0; i < 8; i++ {
			t.rows = append(t.rows, map[string]string{"k": fmt.Sprintf("A%d", i), "c1": "f", "c2": "g"})
			t.rows = append(t.rows, map[string]string{"k": fmt.Sprintf("m%d", i), "c1": "f", "c2": "g"})
		}
	}
	return t
}

func c05filler(k string) bool { return strings.HasPrefix(k, "m") || strings.HasPrefix(k, "A") }

func c05apply(base *ltable, mask int, b c05branch) *ltable {
	t := &ltable{pk: base.pk}
	switch b.colOp {
	case 0:
		t.cols = append([]string{}, base.cols...)
	case 1:
		t.cols = append(append([]string{}, base.cols...), "d")
	case 2:
		for _, c := range base.cols {
			if c != "c2" {
				t.cols = append(t.cols, c)
			}
		}
	case 3:
		for _, c := range base.cols {
			switch c {
			case "c1":
				t.cols = append(t.cols, "c2")
			case "c2":
				t.cols = append(t.cols, "c1")
			default:
				t.cols = append(t.cols, c)
			}
		}
	case 4:
		for _, c := range base.cols {
			if c == "c2" {
				t.cols = append(t.cols, "e")
			} else {
				t.cols = append(t.cols, c)
			}
		}
	}
	mk := func(k, c1, c2 string) map[string]string {
		r := map[string]string{"k": k, "c1": c1, "c2": c2}
		if b.colOp == 1 {
			r["d"] = "d" + k
		}
		if b.colOp == 4 {
			r["e"] = c2
		}
		return r
	}
	for i, k := range c05keys {
		inBase := mask&(1<<uint(i)) != 0
		e := b.edits[i]
		if inBase {
			switch e {
			case 0:
				t.rows = append(t.rows, mk(k, "x", "y"))
			case 1:
				t.rows = append(t.rows, mk(k, "p", "y"))
			case 2:
				t.rows = append(t.rows, mk(k, "q", "y"))
			case 3:
				t.rows = append(t.rows, mk(k, "x", "p"))
			case 4:
			case 5:
				t.rows = append(t.rows, mk(k, "p", "p"))
			case 6:
				t.rows = append(t.rows, mk(k, "", "y"))
			}
		} else {
			switch e {
			case 1:
				t.rows = append(t.rows, mk(k, "p", "q"))
			case 2:
				t.rows = append(t.rows, mk(k, "q", "q"))
			case 3:
				t.rows = append(t.rows, mk(k, "p", "p"))
			case 4:
				t.rows = append(t.rows, mk(k, "", "q"))
			}
		}
	}
	for _, r := range base.rows {
		if c05filler(r["k"]) {
			t.rows = append(t.rows, mk(r["k"], "f", "g"))
		}
	}
	return t
}

func ifStr(b bool, x, y string) string {
	if b {
		return x
	}
	return y
}

func keyHashHex(k string) string {
	return fmt.Sprintf("%x", model.Hash(model.EncodeStrList([]string{k})))
}

// c05expect is the cell model for branches that keep the base's column set.
func c05expect(base *ltable, mask int, brs []c05branch) (rows []map[string]string, conflicts []string) {
	cellOf := func(inBase bool, e int) (present bool, c1, c2 string) {
		if inBase {
			switch e {
			case 0:
				return true, "x", "y"
			case 1:
				return true, "p", "y"
			case 2:
				return true, "q", "y"
			case 3:
				return true, "x", "p"
			case 5:
				return true, "p", "p"
			case 6:
				return true, "", "y"
			}
			return false, "", ""
		}
		switch e {
		case 1:
			return true, "p", "q"
		case 2:
			return true, "q", "q"
		case 3:
			return true, "p", "p"
		case 4:
			return true, "", "q"
		}
		return false, "", ""
	}
	for i, k := range c05keys {
		inBase := mask&(1<<uint(i)) != 0
		type ver struct {
			present bool
			c1, c2  string
		}
		var vs []ver
		for _, b := range brs {
			p, a, c := cellOf(inBase, b.edits[i])
			vs = append(vs, ver{p, a, c})
		}
		if inBase {
			removed, modified := 0, 0
			for _, v := range vs {
				if !v.present {
					removed++
				} else if v.c1 != "x" || v.c2 != "y" {
					modified++
				}
			}
			switch {
			case removed > 0 && modified > 0:
				conflicts = append(conflicts, keyHashHex(k))
			case removed > 0:
				// removed by some, untouched by the rest: removal
			default:
				r := map[string]string{"k": k, "c1": "x", "c2": "y"}
				conflict := false
				for _, col := range []string{"c1", "c2"} {
					vals := map[string]bool{}
					for _, v := range vs {
						x := v.c1
						if col == "c2" {
							x = v.c2
						}
						if x != r[col] {
							vals[x] = true
						}
					}
					if len(vals) > 1 {
						conflict = true
					}
					for x := range vals {
						r[col] = x
					}
				}
				if conflict {
					conflicts = append(conflicts, keyHashHex(k))
				} else {
					rows = append(rows, r)
				}
			}
		} else {
			var first *ver
			conflict := false
			for j := range vs {
				if !vs[j].present {
					continue
				}
				if first == nil {
					first = &vs[j]
				} else if first.c1 != vs[j].c1 || first.c2 != vs[j].c2 {
					conflict = true
				}
			}
			if first == nil {
				continue
			}
			if conflict {
				conflicts = append(conflicts, keyHashHex(k))
			} else {
				rows = append(rows, map[string]string{"k": k, "c1": first.c1, "c2": first.c2})
			}
		}
	}
	for _, r := range base.rows {
		if c05filler(r["k"]) {
			rows = append(rows, map[string]string{"k": r["k"], "c1": "f", "c2": "g"})
		}
	}
	sort.Strings(conflicts)
	return
}

func mapsToSet(cols []string, rows []map[string]string) []string {
	var m [][]string
	for _, r := range rows {
		row := make([]string, len(cols))
		for i, c := range cols {
			row[i] = r[c]
		}
		m = append(m, row)
	}
	return rowSetByName(cols, m)
}

// c05Body: shapes=false explores the plain shape only (keyed, key column first, no column
// operation) - the shape without known findings, where no case kills its worker, so deep
// deviation bounds complete; shapes=true explores the tuples that leave the plain shape.
func c05Body(nb int, shapes bool) func(c *mc.Ctx) {
	return func(c *mc.Ctx) {
		needRewrite("blocksize:sorter")
		nk := len(c05keys)
		if nb >= 3 && !c.Thorough() {
			nk = 2 // quick: three branches over two keys
		}
		mask := c.Choose(1 << uint(nk))
		pos, keyless := 0, false
		if shapes {
			pos = c.ChooseDev(3)
			keyless = c.ChooseDev(2) == 1
		}
		filler := c.ChooseDev(3)
		brs := make([]c05branch, nb)
		anyOp := false
		for j := range brs {
			for i := range c05keys[:nk] {
				if mask&(1<<uint(i)) != 0 {
					brs[j].edits[i] = c.ChooseDev(7)
				} else {
					brs[j].edits[i] = c.ChooseDev(5)
				}
			}
			if shapes {
				brs[j].colOp = c.ChooseDev(5)
				anyOp = anyOp || brs[j].colOp != 0
			}
		}
		if shapes && pos == 0 && !keyless && !anyOp {
			c.Skip() // a plain tuple: belongs to the other harness
		}
		c.Shard()
		// shape of the tuple: failures are classified by it so that each known defect of the
		// merge collector is recorded for exactly the input shape that triggers it
		shape := ""
		anyColOp := false
		for _, b := range brs {
			if b.colOp != 0 {
				anyColOp = true
			}
		}
		switch {
		case anyColOp:
			shape = "column-op"
		case keyless:
			shape = "keyless"
		case pos != 0:
			shape = "key-not-first"
		}
		c.SetCrashClass(ifStr(shape == "", "plain", shape))
		// a sorter goroutine of the repository that panics (known column-op finding) ends the worker
		// process; give the goroutines of this case a moment to finish before the next case
		// starts, so that such a crash is attributed to the case that caused it
		baseG := runtime.NumGoroutine()
		defer func() {
			for i := 0; i < 300 && runtime.NumGoroutine() > baseG; i++ {
				time.Sleep(100 * time.Microsecond)
			}
		}()
		fail := func(cls, format string, a ...any) {
			if shape != "" {
				cls = cls + ":" + shape
			}
			c.Fail(cls, format, a...)
		}
		base := c05base(mask, pos, keyless, filler)
		var others []*ltable
		var descs []string
		for _, b := range brs {
			o := c05apply(base, mask, b)
			others = append(others, o)
			descs = append(descs, o.String())
		}
		desc := fmt.Sprintf("base=%s branches=%s (block size scaled to 3)", base, strings.Join(descs, " | "))
		c.Logf("%s", desc)
		bst := base.store()
		var osts []*storedTable
		for _, o := range others {
			osts = append(osts, o.store())
		}
		colOps := false
		for _, b := range brs {
			if b.colOp != 0 {
				colOps = true
			}
		}
		var res, resB *mergeOutcome
		var err error
		if p, st := mc.Try(func() { res, err = runMerge(bst, osts, false) }); p != nil {
			fail("merge-panic", "merge (rows output) panicked: %v; %s\n%s", p, desc, firstLinesOf(st, 10))
			return
		}
		if err != nil {
			fail("merge-error", "merge failed: %v; %s", err, desc)
			return
		}
		if p, st := mc.Try(func() { resB, err = runMerge(bst, osts, true) }); p != nil {
			fail("merge-panic", "merge (blocks output, committed as the CLI does) panicked: %v; %s\n%s", p, desc, firstLinesOf(st, 10))
			return
		}
		if err != nil {
			fail("merge-error", "merge via SortedBlocks failed: %v; %s", err, desc)
			return
		}
		got := rowSetByName(res.cols, res.rows)
		gotB := rowSetByName(resB.cols, resB.rows)
		if fmt.Sprint(got) != fmt.Sprint(gotB) {
			fail("merge-outputs-differ", "SortedRows gives %v, SortedBlocks (committed table) gives %v; %s", got, gotB, desc)
			return
		}
		if msg := model.CheckTable(resB.db, resB.tblSum, 3, true); msg != "" {
			fail("merge-result-unsound", "table committed from the merge result: %s; %s", msg, desc)
			return
		}
		// (2) cell model when every branch keeps the column set
		if !colOps && !keyless {
			wantRows, wantConf := c05expect(base, mask, brs)
			want := mapsToSet(base.cols, wantRows)
			if fmt.Sprint(res.conflicts) != fmt.Sprint(wantConf) {
				fail("merge-conflicts", "conflicts reported for key hashes %v, expected %v (keys a=%s b=%s c=%s); %s", res.conflicts, wantConf, keyHashHex("a")[:8], keyHashHex("b")[:8], keyHashHex("c")[:8], desc)
				return
			}
			if fmt.Sprint(got) != fmt.Sprint(want) {
				fail("merge-rows", "merge result %v, expected %v; %s", got, want, desc)
				return
			}
		}
		// (1) laws
		allKeep := func(b c05branch) bool { return b.edits == [3]int{} && b.colOp == 0 }
		if nb == 2 {
			if allKeep(brs[1]) && !keyless {
				// merge(base; X, base) = X
				want := rowSetByName(others[0].cols, others[0].matrix())
				if len(res.conflicts) > 0 || fmt.Sprint(got) != fmt.Sprint(want) {
					fail("law-merge-with-base", "merge(base; X, base) should be X=%v, got %v with %d conflicts; %s", want, got, len(res.conflicts), desc)
					return
				}
			}
			if brs[0] == brs[1] && !keyless {
				want := rowSetByName(others[0].cols, others[0].matrix())
				if len(res.conflicts) > 0 || fmt.Sprint(got) != fmt.Sprint(want) {
					fail("law-merge-with-self", "merge(base; X, X) should be X=%v, got %v with %d conflicts; %s", want, got, len(res.conflicts), desc)
					return
				}
			}
			// commutativity
			var rev *mergeOutcome
			if p, _ := mc.Try(func() { rev, err = runMerge(bst, []*storedTable{osts[1], osts[0]}, false) }); p != nil || err != nil {
				fail("merge-error", "merge with the branches swapped failed: %v %v; %s", p, err, desc)
				return
			}
			gr := rowSetByName(rev.cols, rev.rows)
			if fmt.Sprint(gr) != fmt.Sprint(got) || fmt.Sprint(rev.conflicts) != fmt.Sprint(res.conflicts) {
				fail("law-order-dependent", "merge(base; X, Y) gives %v conflicts %v but merge(base; Y, X) gives %v conflicts %v; %s", got, res.conflicts, gr, rev.conflicts, desc)
				return
			}
		}
		// (3) rows no branch touched appear unchanged under their own column names
		if !keyless {
			surviving := map[string]bool{"k": true, "c1": true, "c2": true}
			for _, b := range brs {
				if b.colOp == 2 || b.colOp == 4 {
					surviving["c2"] = false
				}
			}
			colIdx := map[string]int{}
			for i, cn := range res.cols {
				colIdx[cn] = i
			}
			for _, r := range base.rows {
				touched := false
				for i, k := range c05keys {
					if k == r["k"] {
						for _, b := range brs {
							if b.edits[i] != 0 {
								touched = true
							}
						}
					}
				}
				if touched {
					continue
				}
				found := false
				for _, row := range res.rows {
					ki, ok := colIdx["k"]
					if !ok || ki >= len(row) || row[ki] != r["k"] {
						continue
					}
					found = true
					for cn, keep := range surviving {
						if !keep {
							continue
						}
						ci, ok := colIdx[cn]
						if !ok || ci >= len(row) || row[ci] != r[cn] {
							fail("merge-untouched-row", "row with key %q was touched by no branch but reads %q under columns %q (base had %s=%q); %s", r["k"], row, res.cols, cn, r[cn], desc)
							return
						}
					}
				}
				if !found {
					fail("merge-untouched-row", "row with key %q was touched by no branch but is missing from the result %v (columns %q); %s", r["k"], res.rows, res.cols, desc)
					return
				}
			}
		} else {
			// keyless: every base row kept by all branches must still be there
			if !colOps {
				keep := map[string]bool{}
				for _, r := range base.matrix() {
					keep[model.RowString(r)] = true
				}
				for _, o := range others {
					have := map[string]bool{}
					for _, r := range o.matrix() {
						have[model.RowString(r)] = true
					}
					for k := range keep {
						if !have[k] {
							delete(keep, k)
						}
					}
				}
				gotSet := map[string]bool{}
				for _, r := range res.rows {
					gotSet[model.RowString(r)] = true
				}
				for _, r := range base.matrix() {
					if keep[model.RowString(r)] && !gotSet[model.RowString(r)] {
						fail("merge-keyless-row-lost", "keyless merge: row %q is in the base and in every branch but missing from the result %q; %s", r, res.rows, desc)
						return
					}
				}
			}
		}
		c.Outcome(fmt.Sprintf("rows%d-conflicts%d", len(res.rows), len(res.conflicts)))
		nontrivial := false
		for _, b := range brs {
			if !allKeep(b) {
				nontrivial = true
			}
		}
		if nontrivial {
			c.Nontrivial(desc)
		}
		if c.WantSample() && len(res.conflicts) > 0 && len(res.rows) > 0 {
			c.Sample(map[string]any{"case": desc, "conflicts": len(res.conflicts), "result_columns": res.cols, "result_rows": res.rows})
		}
	}
}

func init() {
	register(&mc.Check{
		ID:    "C05",
		Level: "exploration",
		Rule: "base: every subset of 3 keys with two value columns, key column first / middle / last; N=2 and N=3 branches (quick: N=3 over two of the keys), each described by per-key edits {keep, set c1 to p or q or the empty string, set c2, set both cells, remove; add the missing key with one of four rows, one with an empty cell} and a column operation {none, add column d, remove c2, swap c1 c2, rename c2 to e}; " +
			"the base subset is enumerated completely; harness two-branches (and three-branches) stays in the plain shape (keyed, key first, no column operation) and explores edits and filler rows up to d deviations; harness two-branches-shapes explores the tuples that leave it: key position, edits / column ops / keyless tables / 5 or 16 untouched filler rows (several blocks at the scaled block size 3; 16 exceeds the insertion-sort threshold of sort.Slice, so the collector's sort is unstable) are explored up to d deviations from 'no edit'. Each tuple is ingested and merged by the real Merger the way the CLI does (conflicts discarded, removed columns = union, SortedRows and SortedBlocks -> committed table). " +
			"Oracles: cell model for tuples that keep the column set (exact conflict set and result rows); laws merge(base;X,base)=X, merge(base;X,X)=X, merge(base;X,Y)=merge(base;Y,X) by column name; untouched rows unchanged under their own column names whatever the column ops and key position; SortedRows = SortedBlocks; committed result passes the structural oracle. " +
			"non-trivial = some branch edits something; distinct by tuple",
		Assumptions: []string{"a column removed by one branch and untouched by the others disappears; remove-vs-unchanged resolves to removal; remove-vs-modified and different changes to one cell are conflicts (the repository's own conventions)", "conflicted keys are discarded the way `wrgl merge --no-gui` does", "3 keys, 2 value columns, one column operation per branch, N <= 3"},
		Harnesses: []*mc.Harness{
			{Name: "two-branches", Variant: "b3", Body: c05Body(2, false), DevBound: map[string]int{"quick": 2, "thorough": 5}, Budget: map[string]time.Duration{"quick": 75 * time.Second, "thorough": 14 * time.Minute}},
			{Name: "two-branches-shapes", Variant: "b3", Body: c05Body(2, true), DevBound: map[string]int{"quick": 2, "thorough": 3}, Budget: map[string]time.Duration{"quick": 150 * time.Second, "thorough": 10 * time.Minute}},
			{Name: "three-branches", Variant: "b3", Body: c05Body(3, false), DevBound: map[string]int{"quick": 3, "thorough": 4}, Budget: map[string]time.Duration{"quick": 100 * time.Second, "thorough": 14 * time.Minute}},
		},
	})
}
