package checks

import (
	"bytes"
	"fmt"
	"github.com/wrgl/wrgl/pkg/ref"
	"github.com/wrgl/wrgl/pkg/verifrt"
	"io"
	"strings"
	"time"

	"github.com/go-logr/logr"
	apiclient "github.com/wrgl/wrgl/pkg/api/client"
	"github.com/wrgl/wrgl/pkg/api/payload"
	"github.com/wrgl/wrgl/pkg/objects"
	"github.com/wrgl/wrgl/pkg/pbar"

	"verif/mc"
	"verif/model"
	"verif/refsrv"
	"verif/stores"
)

// C09 — after fetch or push the receiver holds the full history of every updated ref.

type syncWorld struct {
	g      *model.Graph
	tblOf  []int
	sums   [][]byte
	pool   []*poolTable
	master *stores.MemStore // every commit and table of the universe
}

func newSyncWorld(g *model.Graph, tblOf []int) *syncWorld {
	w := &syncWorld{g: g, tblOf: tblOf, pool: c12Pool(), master: stores.NewMemStore()}
	for _, pt := range w.pool {
		for _, k := range pt.keys {
			w.master.PutRaw(k, tableCacheDB.Raw(k))
		}
	}
	tables := make([][]byte, g.N())
	times := make([]int, g.N())
	for i := range tables {
		tables[i] = w.pool[tblOf[i]].st.sum
		times[i] = i
	}
	var err error
	w.sums, err = buildCommits(w.master, g, times, tables)
	if err != nil {
		panic(err)
	}
	return w
}

// populate copies the commits in mask (and their tables unless the table index is in absent) into a new store.
func (w *syncWorld) populate(mask uint64, absent int) *stores.MemStore {
	db := stores.NewMemStore()
	for _, i := range model.Bits(mask) {
		k := "com/" + string(w.sums[i])
		db.PutRaw(k, w.master.Raw(k))
		if absent&(1<<uint(w.tblOf[i])) == 0 {
			for _, tk := range w.pool[w.tblOf[i]].keys {
				db.PutRaw(tk, w.master.Raw(tk))
			}
		}
	}
	return db
}

func closedSets(g *model.Graph, allowEmpty bool) []uint64 {
	anc := g.Anc()
	var out []uint64
	for m := uint64(0); m < 1<<uint(g.N()); m++ {
		if m == 0 && !allowEmpty {
			continue
		}
		ok := true
		for _, i := range model.Bits(m) {
			if anc[i]&^m != 0 {
				ok = false
			}
		}
		if ok {
			out = append(out, m)
		}
	}
	return out
}

func tipsOf(g *model.Graph, mask uint64) []int {
	desc := g.Desc()
	var out []int
	for _, i := range model.Bits(mask) {
		if desc[i]&mask == 1<<uint(i) {
			out = append(out, i)
		}
	}
	return out
}

func storesEqualOnCommon(a, b *stores.MemStore) string {
	for _, k := range a.Keys() {
		if strings.HasPrefix(k, "tblsum/") || strings.HasPrefix(k, "tblidx/") {
			continue // derived data is rebuilt at the receiver; compared structurally
		}
		if v := b.Raw(k); v != nil && !bytes.Equal(v, a.Raw(k)) {
			return fmt.Sprintf("object %s %x differs between the two sides", k[:strings.Index(k, "/")], k[strings.Index(k, "/")+1:])
		}
	}
	return ""
}

// checkHistory: every ancestor of tip exists in db; tables present and sound for commits whose
// distance from the nearest tip is < depth (all when depth == 0), except those exempt.
func (w *syncWorld) checkHistory(db *stores.MemStore, tips []int, depth int, exempt uint64) string {
	anc := w.g.Anc()
	dist := make([]int, w.g.N())
	for i := range dist {
		dist[i] = 1 << 30
	}
	frontier := append([]int{}, tips...)
	for _, t := range tips {
		dist[t] = 0
	}
	for len(frontier) > 0 {
		var next []int
		for _, x := range frontier {
			for _, p := range w.g.Parents[x] {
				if dist[p] > dist[x]+1 {
					dist[p] = dist[x] + 1
					next = append(next, p)
				}
			}
		}
		frontier = next
	}
	var need uint64
	for _, t := range tips {
		need |= anc[t]
	}
	for _, i := range model.Bits(need) {
		if db.Raw("com/"+string(w.sums[i])) == nil {
			return fmt.Sprintf("ancestor node %d of an updated ref is missing", i)
		}
		if exempt&(1<<uint(i)) != 0 {
			continue
		}
		if depth == 0 || dist[i] < depth {
			sum := w.pool[w.tblOf[i]].st.sum
			if !objects.TableExist(db, sum) {
				return fmt.Sprintf("table of node %d (distance %d from the fetched tip, depth %d) is missing", i, dist[i], depth)
			}
			if msg := model.CheckTable(db, sum, objects.BlockSize, true); msg != "" {
				return fmt.Sprintf("table of node %d is not usable: %s", i, msg)
			}
		}
	}
	return ""
}

func c09Fetch(c *mc.Ctx) {
	nmax := 3
	if c.Thorough() {
		nmax = 4
	}
	n := 1 + c.Choose(nmax)
	g := model.ChooseGraph(n, 2, c.Choose)
	if hasMerge(g) && c.ChooseDev(2) == 1 {
		g = g.SwapMergeParents()
	}
	tblOf := make([]int, n)
	for i := range tblOf {
		tblOf[i] = c.ChooseDev(3)
	}
	srvSets := closedSets(g, false)
	S := srvSets[c.Choose(len(srvSets))]
	cliSets := closedSets(g, true)
	C := cliSets[c.Choose(len(cliSets))]
	// server refs: one ref on every tip of S (default) or only on the newest tip
	stips := tipsOf(g, S)
	if len(stips) > 1 && c.ChooseDev(2) == 1 {
		stips = stips[len(stips)-1:]
	}
	// ... plus, as a deviation, a ref on any further commit of S (a tag on a non-tip commit)
	if sb := model.Bits(S); len(sb) > len(stips) {
		if e := c.ChooseDev(1 + len(sb)); e > 0 {
			dup := false
			for _, t := range stips {
				dup = dup || t == sb[e-1]
			}
			if !dup {
				stips = append(stips, sb[e-1])
			}
		}
	}
	// order in which the finder walks the wanted commits and both sides list their refs (Go maps in
	// the implementation): sorted, or reversed as a deviation
	wantRev := c.ChooseDev(2) == 1
	depth := c.Choose(3)
	absent := c.ChooseDev(8) // pool tables the client lacks although it has the commit (earlier shallow fetch)
	haves := []int{256, 1, 2}[c.ChooseDev(3)]
	tableNeg := c.ChooseDev(2) == 1
	maxPF := []uint64{0, 1, 4096}[c.ChooseDev(3)]
	c.Shard()
	needRewrite("maporder:finder")
	needRewrite("maporder:finder-refs")
	needRewrite("maporder:fetch-refs")
	if wantRev {
		verifrt.MapPerm = func(site string, m int) []int {
			p := make([]int, m)
			for i := range p {
				p[i] = m - 1 - i
			}
			return p
		}
		defer func() { verifrt.MapPerm = nil }()
	}
	w := newSyncWorld(g, tblOf)
	sdb := w.populate(S, 0)
	cdb := w.populate(C, absent)
	srs, crs := stores.NewMapRefStore(), stores.NewMapRefStore()
	for j, t := range stips {
		srs.Set(fmt.Sprintf("heads/s%d", j), w.sums[t])
	}
	for j, t := range tipsOf(g, C) {
		crs.Set(fmt.Sprintf("heads/c%d", j), w.sums[t])
	}
	desc := fmt.Sprintf("parents=%v tables=%v server has %v (refs on %v) client has %v (tables absent at client: %v) depth=%d havesPerRoundTrip=%d tableNegotiation=%v maxPackfileSize=%d wantsWalkedInReverse=%v",
		g.Parents, tblOf, model.Bits(S), stips, model.Bits(C), model.Bits(uint64(absent)), depth, haves, tableNeg, maxPF, wantRev)
	c.Logf("%s", desc)
	srv := refsrv.New(sdb, srs)
	srv.TableNegotiation = tableNeg
	srv.MaxPackfileSize = maxPF
	client, err := apiclient.NewClient("http://refsrv.invalid", logr.Discard(), apiclient.WithTransport(refsrv.Transport(srv)))
	if err != nil {
		panic(err)
	}
	var advertised [][]byte
	for _, t := range stips {
		advertised = append(advertised, w.sums[t])
	}
	// commits the client held shallowly before this fetch are not promised to be completed by it
	// (... unless the new history reaches them without passing through a commit the client already
	// held in full: the walk of the wanted history only stops at such commits)
	var exempt, fullBefore uint64
	for _, i := range model.Bits(C) {
		if absent&(1<<uint(tblOf[i])) != 0 {
			exempt |= 1 << uint(i)
		} else {
			fullBefore |= 1 << uint(i)
		}
	}
	// breadth-first from the commits that are asked for; a shallow commit stops being exempt when this
	// walk reaches it within the requested depth
	var visited, within uint64
	type qe struct{ node, d int }
	var queue []qe
	for _, t := range stips {
		if C&(1<<uint(t)) == 0 { // only commits the client lacks are asked for
			queue = append(queue, qe{t, 0})
		}
	}
	for len(queue) > 0 {
		x := queue[0]
		queue = queue[1:]
		if visited&(1<<uint(x.node)) != 0 {
			continue
		}
		visited |= 1 << uint(x.node)
		if depth == 0 || x.d < depth {
			within |= 1 << uint(x.node)
		}
		if fullBefore&(1<<uint(x.node)) != 0 {
			continue
		}
		for _, p := range g.Parents[x.node] {
			queue = append(queue, qe{p, x.d + 1})
		}
	}
	exempt &^= within
	run := func() (transferred int, nothingWanted bool, err error) {
		srv.ResetLog()
		ses, err := apiclient.NewUploadPackSession(cdb, crs, client, advertised,
			apiclient.WithUploadPackDepth(depth), apiclient.WithUploadPackHavesPerRoundTrip(haves))
		if err != nil {
			if err.Error() == "nothing wanted" {
				return 0, true, nil
			}
			return 0, false, err
		}
		if _, err := ses.Start(); err != nil {
			return 0, false, err
		}
		client.ResetCookies()
		return srv.ObjectsTransferred(), false, nil
	}
	var moved int
	var nw bool
	var ferr error
	if p, st := mc.Try(func() { moved, nw, ferr = run() }); p != nil {
		c.Fail("fetch-panic", "fetch panicked: %v; %s\n%s", p, desc, firstLinesOf(st, 10))
		return
	}
	if ferr != nil {
		c.Fail("fetch-error", "fetch failed: %v; %s", ferr, desc)
		return
	}
	if msg := w.checkHistory(cdb, stips, depth, exempt); msg != "" {
		c.Fail("fetch-incomplete", "after a successful fetch: %s; %s", msg, desc)
		return
	}
	if msg := storesEqualOnCommon(sdb, cdb); msg != "" {
		c.Fail("objects-differ", "%s; %s", msg, desc)
		return
	}
	// an immediately repeated fetch transfers nothing and changes nothing
	before := strings.Join(cdb.Keys(), "\n")
	moved2, nw2, ferr := run()
	if ferr != nil {
		c.Fail("refetch-error", "repeated fetch failed: %v; %s", ferr, desc)
		return
	}
	if moved2 != 0 || strings.Join(cdb.Keys(), "\n") != before {
		c.Fail("refetch-transfers", "an immediately repeated fetch transferred %d objects / changed the store; %s", moved2, desc)
		return
	}
	_ = nw2
	c.Outcome(fmt.Sprintf("objects%d-nothingWanted=%v", ifInt(moved > 8, 9, moved), nw))
	if moved > 0 {
		c.Nontrivial(desc)
	}
	if c.WantSample() && moved > 3 && C != 0 {
		c.Sample(map[string]any{"case": desc, "objects_transferred": moved})
	}
}

func c09Push(c *mc.Ctx) {
	nmax := 3
	if c.Thorough() {
		nmax = 4
	}
	n := 1 + c.Choose(nmax)
	g := model.ChooseGraph(n, 2, c.Choose)
	tblOf := make([]int, n)
	for i := range tblOf {
		tblOf[i] = c.ChooseDev(3)
	}
	cliSets := closedSets(g, false)
	C := cliSets[c.Choose(len(cliSets))]
	srvSets := closedSets(g, true)
	S := srvSets[c.Choose(len(srvSets))]
	ctips := tipsOf(g, C)
	tip := ctips[c.Choose(len(ctips))]
	srvTablesAbsent := c.ChooseDev(8) // the remote holds some commits without their table
	cliTablesAbsent := c.ChooseDev(8) // the LOCAL repository holds some commits without their table (it was fetched shallowly; no remote-tracking ref remembers from where)
	maxPF := []uint64{0, 1, 4096}[c.ChooseDev(3)]
	mapRev := c.ChooseDev(2) == 1 // order of the candidate tables and ref lists (Go maps in the implementation)
	// candidate tables offered per negotiation request (256 in the implementation; 1 and 2 make a
	// push of two or three tables a multi-request negotiation)
	batch := 256
	if verifrt.Has("batchsize:push-tables") {
		batch = []int{256, 1, 2}[c.ChooseDev(3)]
	}
	c.Shard()
	verifrt.PushBatch = batch
	defer func() { verifrt.PushBatch = 0 }()
	needRewrite("maporder:push-tables")
	needRewrite("maporder:finder-refs")
	if mapRev {
		verifrt.MapPerm = func(site string, m int) []int {
			p := make([]int, m)
			for i := range p {
				p[i] = m - 1 - i
			}
			return p
		}
		defer func() { verifrt.MapPerm = nil }()
	}
	w := newSyncWorld(g, tblOf)
	cdb := w.populate(C, cliTablesAbsent)
	sdb := w.populate(S, srvTablesAbsent)
	localShallow := false
	for _, i := range model.Bits(C) {
		if cliTablesAbsent&(1<<uint(tblOf[i])) != 0 {
			localShallow = true
		}
	}
	srs := stores.NewMapRefStore()
	var crs ref.Store = stores.NewMapRefStore()
	if localShallow {
		// the client looks through its reflogs for the remote a shallow commit came from: give it the
		// real SQL ref store (with reflogs, none of them from a fetch)
		sq, _, closeDB := stores.NewMemRefStore()
		defer closeDB()
		crs = sq
	}
	for j, t := range tipsOf(g, S) {
		srs.Set(fmt.Sprintf("heads/s%d", j), w.sums[t])
	}
	for j, t := range ctips {
		if localShallow {
			ref.SaveRef(crs, fmt.Sprintf("heads/c%d", j), w.sums[t], "t", "t@t", "commit", "setup", nil)
		} else {
			crs.Set(fmt.Sprintf("heads/c%d", j), w.sums[t])
		}
	}
	desc := fmt.Sprintf("parents=%v tables=%v local has %v remote has %v (tables absent at remote: %v); push node %d to heads/p; maxPackfileSize=%d mapOrderReversed=%v tablesAbsentLocally=%v tablesPerRequest=%d",
		g.Parents, tblOf, model.Bits(C), model.Bits(S), model.Bits(uint64(srvTablesAbsent)), tip, maxPF, mapRev, model.Bits(uint64(cliTablesAbsent)), batch)
	c.Logf("%s", desc)
	srv := refsrv.New(sdb, srs)
	client, err := apiclient.NewClient("http://refsrv.invalid", logr.Discard(), apiclient.WithTransport(refsrv.Transport(srv)))
	if err != nil {
		panic(err)
	}
	remoteRefs, err := client.GetRefs(nil, nil)
	if err != nil {
		c.Fail("push-error", "GetRefs failed: %v; %s", err, desc)
		return
	}
	push := func(old []byte) (map[string]*payload.Update, int, error) {
		srv.ResetLog()
		um := map[string]*payload.Update{"heads/p": {Sum: payload.BytesToHex(w.sums[tip]), OldSum: payload.BytesToHex(old)}}
		ses, err := apiclient.NewReceivePackSession(cdb, crs, client, um, remoteRefs, maxPF)
		if err != nil {
			return nil, 0, err
		}
		rep, err := ses.Start(pbar.NewContainer(io.Discard, true))
		client.ResetCookies()
		return rep, srv.ObjectsTransferred(), err
	}
	var rep map[string]*payload.Update
	var moved int
	var perr error
	if p, st := mc.Try(func() { rep, moved, perr = push(nil) }); p != nil {
		if localShallow {
			// a shallow local history whose origin is unknown: the client refuses before contacting the
			// remote (by panicking in NewShallowCommitError - not a successful push, so outside this property)
			if got, _ := srs.Get("heads/p"); got != nil {
				c.Fail("push-ref", "the push of a shallow local history panicked (%v) but the remote ref heads/p was set; %s", p, desc)
				return
			}
			c.Outcome("refused-shallow-local")
			c.Nontrivial(desc)
			return
		}
		c.Fail("push-panic", "push panicked: %v; %s\n%s", p, desc, firstLinesOf(st, 10))
		return
	}
	if perr != nil && localShallow {
		if got, _ := srs.Get("heads/p"); got != nil {
			c.Fail("push-ref", "the push of a shallow local history failed (%v) but the remote ref heads/p was set; %s", perr, desc)
			return
		}
		c.Outcome("refused-shallow-local")
		c.Nontrivial(desc)
		return
	}
	if perr != nil {
		shallowRemote := false
		for _, i := range model.Bits(S) {
			if srvTablesAbsent&(1<<uint(tblOf[i])) != 0 {
				shallowRemote = true
			}
		}
		if shallowRemote {
			// the property speaks of SUCCESSFUL pushes: a push that a shallow remote refuses with an error
			// (the same sender assumption as the push-incomplete:shallow-remote finding, seen by the
			// receiver as a missing block) is reported to the user and leaves the ref alone
			if got, _ := srs.Get("heads/p"); got != nil {
				c.Fail("push-ref", "the push failed (%v) but the remote ref heads/p was set; %s", perr, desc)
				return
			}
			c.Outcome("refused-by-shallow-remote")
			c.Nontrivial(desc)
			return
		}
		c.Fail("push-error", "push failed: %v; %s", perr, desc)
		return
	}
	if rep["heads/p"] == nil || rep["heads/p"].ErrMsg != "" {
		c.Fail("push-rejected", "the remote rejected a push to a new ref: %+v; %s", rep["heads/p"], desc)
		return
	}
	got, _ := srs.Get("heads/p")
	if !bytes.Equal(got, w.sums[tip]) {
		c.Fail("push-ref", "remote ref heads/p is %x after the push, expected node %d; %s", got, tip, desc)
		return
	}
	// commits the remote held shallowly before are not promised to be completed
	var exempt uint64
	for _, i := range model.Bits(S) {
		if srvTablesAbsent&(1<<uint(tblOf[i])) != 0 {
			exempt |= 1 << uint(i)
		}
	}
	if msg := w.checkHistory(sdb, []int{tip}, 0, exempt); msg != "" {
		cls := "push-incomplete"
		if exempt != 0 {
			// the remote held a commit without its table before the push (a shallow remote)
			cls = "push-incomplete:shallow-remote"
		}
		c.Fail(cls, "after a successful push the remote: %s; %s", msg, desc)
		return
	}
	if msg := storesEqualOnCommon(cdb, sdb); msg != "" {
		c.Fail("objects-differ", "%s; %s", msg, desc)
		return
	}
	before := strings.Join(sdb.Keys(), "\n")
	remoteRefs, _ = client.GetRefs(nil, nil)
	_, moved2, perr := push(w.sums[tip])
	if perr != nil {
		c.Fail("repush-error", "repeated push failed: %v; %s", perr, desc)
		return
	}
	if moved2 != 0 || strings.Join(sdb.Keys(), "\n") != before {
		c.Fail("repush-transfers", "an immediately repeated push transferred %d objects / changed the remote store; %s", moved2, desc)
		return
	}
	c.Outcome(fmt.Sprintf("objects%d", ifInt(moved > 8, 9, moved)))
	if moved > 0 {
		c.Nontrivial(desc)
	}
	if c.WantSample() && moved > 3 && S != 0 {
		c.Sample(map[string]any{"case": desc, "objects_transferred": moved})
	}
}

func init() {
	register(&mc.Check{
		ID:    "C09",
		Level: "exploration",
		Rule: "CLI tier (cli-fetch-push): `wrgl fetch` / `wrgl push` against the reference server with two refspecs per operation (relation of old and offered value x ref kind head / remote-tracking / tag / custom / head->tag x '+'; deviations --force and commit-time order), the receiving repository holding only what its own refs reach: afterwards every ref of the operation has its full history with tables there. " +
			"fetch: every commit DAG of 1..3 (thorough 4) nodes x every ancestor-closed set held by the server x every ancestor-closed set held by the client (ahead, behind, diverged, unrelated, equal all arise) x depth 0..2, completely; crossed with up to d deviations over: table assignment from a pool that shares blocks, server refs on all tips / newest tip / additionally on any non-tip commit, the order in which the finder walks the wanted commits, tables absent at the client (earlier shallow fetch), haves per round trip {256,1,2}, server-side table negotiation, max packfile size {default,1,4096}. " +
			"The real UploadPackSession talks HTTP (in-process round tripper, no sockets) to a reference server assembled from the repository's own finder/sender/receiver. Oracle: fetch succeeds; every ancestor of every advertised tip exists locally, tables within the depth are present and pass the structural oracle; objects present on both sides are byte-identical; an immediately repeated fetch transfers 0 objects and changes nothing. " +
			"push: same universe, the real ReceivePackSession pushes a local tip to a new remote ref (remote possibly holding commits without tables; as a deviation the local repository itself shallow, which must be refused or, if it succeeds, still leave the remote complete): the remote must end with the full history incl. tables, identical objects, and a repeated push transfers nothing. non-trivial = at least one object transferred; distinct by case description",
		Assumptions: []string{"the server half is /verif's reference assembly of the repository's own components (refsrv); auth, proxies and HTTP/2 stream errors are not modelled", "commits that the receiving side already held without their table before the operation are not promised to be completed by it, except (fetch) those the new history reaches without passing through a commit the receiver already held in full"},
		Harnesses: []*mc.Harness{
			{Name: "fetch-sessions", Body: c09Fetch, DevBound: map[string]int{"quick": 2, "thorough": 3}, Budget: map[string]time.Duration{"quick": 75 * time.Second, "thorough": 14 * time.Minute}},
			// `wrgl fetch` / `wrgl push` through the real command tree with two refspecs (every ref kind, '+', --force): the body of C10's
			// harness; the receiving repository holds only what its refs reach, and must afterwards hold the full history of every ref of the operation
			{Name: "cli-fetch-push", Body: c10FetchPush, DevBound: map[string]int{"quick": 1, "thorough": 2}, Budget: map[string]time.Duration{"quick": 75 * time.Second, "thorough": 8 * time.Minute}},
			{Name: "push-sessions", Body: c09Push, DevBound: map[string]int{"quick": 2, "thorough": 3}, Budget: map[string]time.Duration{"quick": 60 * time.Second, "thorough": 10 * time.Minute}},
		},
	})
}
