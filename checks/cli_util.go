package checks

import (
	"bytes"
	"fmt"
	"os"
	"path/filepath"
	"sync"

	"github.com/spf13/viper"
	wrgl "github.com/wrgl/wrgl/cmd/wrgl"
	"github.com/wrgl/wrgl/pkg/local"
	"github.com/wrgl/wrgl/pkg/objects"
	"github.com/wrgl/wrgl/pkg/ref"
)

// cliRepo is an on-disk repository driven through the real command tree (wrgl.RootCmd),
// in-process.
type cliRepo struct {
	root    string
	wrglDir string
}

var cliMu sync.Mutex // the command tree uses global viper state

func newCLIRepo() (*cliRepo, error) {
	root, err := os.MkdirTemp("", "clirepo_")
	if err != nil {
		return nil, err
	}
	home := filepath.Join(root, "home")
	os.MkdirAll(home, 0755)
	os.Setenv("HOME", home)
	os.Setenv("XDG_CONFIG_HOME", filepath.Join(home, ".config"))
	r := &cliRepo{root: root, wrglDir: filepath.Join(root, ".wrgl")}
	if _, err := r.run(nil, "init", "--wrgl-dir", r.wrglDir); err != nil {
		return nil, fmt.Errorf("init: %v", err)
	}
	if _, err := r.run(nil, "config", "set", "user.email", "v@verif"); err != nil {
		return nil, fmt.Errorf("config: %v", err)
	}
	if _, err := r.run(nil, "config", "set", "user.name", "Verif"); err != nil {
		return nil, fmt.Errorf("config: %v", err)
	}
	return r, nil
}

func (r *cliRepo) remove() { os.RemoveAll(r.root) }

// run executes one wrgl command and returns its standard output.
func (r *cliRepo) run(stdin []byte, args ...string) (string, error) {
	cliMu.Lock()
	defer cliMu.Unlock()
	viper.Set("wrgl_dir", r.wrglDir)
	cmd := wrgl.RootCmd()
	var out, errb bytes.Buffer
	cmd.SetOut(&out)
	cmd.SetErr(&errb)
	if stdin != nil {
		cmd.SetIn(bytes.NewReader(stdin))
	}
	cmd.SetArgs(args)
	err := cmd.Execute()
	if err != nil {
		return out.String(), fmt.Errorf("%v (stderr: %s)", err, errb.String())
	}
	return out.String(), nil
}

// RunCLI executes one wrgl command in this process (entry point of `vcheck cli`).
func RunCLI(wrglDir, home string, args []string) int {
	os.Setenv("HOME", home)
	os.Setenv("XDG_CONFIG_HOME", filepath.Join(home, ".config"))
	viper.Set("wrgl_dir", wrglDir)
	cmd := wrgl.RootCmd()
	cmd.SetOut(os.Stdout)
	cmd.SetErr(os.Stderr)
	cmd.SetArgs(args)
	if err := cmd.Execute(); err != nil {
		fmt.Fprintln(os.Stderr, err)
		return 1
	}
	return 0
}

func (r *cliRepo) writeFile(name string, b []byte) (string, error) {
	p := filepath.Join(r.root, name)
	return p, os.WriteFile(p, b, 0644)
}

// open opens the repository's stores directly (Badger + SQLite), for read-back.
func (r *cliRepo) open() (objects.Store, ref.Store, func(), error) {
	rd, err := local.NewRepoDir(r.wrglDir, "")
	if err != nil {
		return nil, nil, nil, err
	}
	db, err := rd.OpenObjectsStore()
	if err != nil {
		rd.Close()
		return nil, nil, nil, err
	}
	rs := rd.OpenRefStore()
	return db, rs, func() { db.Close(); rd.Close() }, nil
}
