package checks

import (
	"bytes"
	"fmt"
	"sort"
	"strings"
	"time"

	"github.com/wrgl/wrgl/pkg/objects"
	"github.com/wrgl/wrgl/pkg/prune"

	"verif/mc"
	"verif/model"
	"verif/stores"
)

// C12 — pruning removes only unreachable objects and leaves every ref fully usable.

type poolTable struct {
	st   *storedTable
	keys []string // every object-store key belonging to the table (tbl, tblidx, tblsum, blk, blkidx)
}

var c12pool []*poolTable

func c12Pool() []*poolTable {
	if c12pool != nil {
		return c12pool
	}
	var t1 [][]string
	for i := 0; i < 300; i++ {
		t1 = append(t1, []string{fmt.Sprintf("%04d", i), "v"})
	}
	t2 := append(append([][]string{}, t1...), []string{"zzzz", "v"})
	t3 := [][]string{{"x1", "p"}, {"x2", "q"}}
	// the fourth table has the rows of the first under another primary key: same blocks,
	// different block indices
	// the fifth has a composite key whose columns are not in column order
	t5 := [][]string{{"x1", "p"}, {"x2", "q"}, {"x0", "q"}}
	// the sixth has the rows and key of the first under another column name: same blocks AND block
	// indices, another table object
	for ti, rows := range [][][]string{t1, t2, t3, t1, t5, t1} {
		pk := []int{0}
		cols := []string{"k", "v"}
		if ti == 5 {
			cols = []string{"k", "w"}
		}
		if ti == 3 {
			pk = []int{0, 1}
		}
		if ti == 4 {
			pk = []int{1, 0}
		}
		st := storeTable(cols, pk, rows)
		pt := &poolTable{st: st}
		pt.keys = append(pt.keys, "tbl/"+string(st.sum), "tblidx/"+string(st.sum), "tblsum/"+string(st.sum))
		for i := range st.tbl.Blocks {
			pt.keys = append(pt.keys, "blk/"+string(st.tbl.Blocks[i]), "blkidx/"+string(st.tbl.BlockIndices[i]))
		}
		c12pool = append(c12pool, pt)
	}
	return c12pool
}

type c12ref struct {
	name string
	node int
}

var c12txid = "a1dbfcc4-f6da-454c-a783-f1b70d347baf"

func c12refName(kind, i int) string {
	switch kind {
	case 1:
		return fmt.Sprintf("tags/t%d", i)
	case 2:
		return fmt.Sprintf("remotes/o/r%d", i)
	case 3:
		return fmt.Sprintf("txs/%s/b%d", c12txid, i)
	}
	return fmt.Sprintf("heads/b%d", i)
}

// c12expect computes, from a snapshot, what must exist after prune.
type c12snapshot struct {
	keys map[string][]byte
}

func c12snap(db *stores.MemStore) *c12snapshot {
	s := &c12snapshot{keys: map[string][]byte{}}
	for _, k := range db.Keys() {
		s.keys[k] = db.Raw(k)
	}
	return s
}

func c12checkPrune(c *mc.Ctx, before *c12snapshot, db *stores.MemStore, rs *stores.MapRefStore, g *model.Graph, sums [][]byte, tblOf []int, pool []*poolTable, step, desc string) bool {
	// reachability from refs
	anc := g.Anc()
	var reach uint64
	for _, sum := range rs.M {
		if i := indexOfSum(sums, sum); i >= 0 {
			reach |= anc[i]
		}
	}
	mustKeep := map[string]string{}
	keptTables := map[int]bool{}
	for _, i := range model.Bits(reach) {
		mustKeep["com/"+string(sums[i])] = fmt.Sprintf("commit of node %d (reachable)", i)
		keptTables[tblOf[i]] = true
		if _, ok := before.keys["tbl/"+string(pool[tblOf[i]].st.sum)]; !ok {
			// shallow commit: without the table object nobody can tell which blocks belong to it
			continue
		}
		for _, k := range pool[tblOf[i]].keys {
			if _, ok := before.keys[k]; ok {
				mustKeep[k] = fmt.Sprintf("%s of the table of reachable node %d", k[:strings.Index(k, "/")], i)
			}
		}
	}
	for k, why := range mustKeep {
		v := db.Raw(k)
		if v == nil {
			c.Fail("prune-removed-reachable", "%s: %s (%x) is gone; %s", step, why, k[strings.Index(k, "/")+1:], desc)
			return false
		}
		if !bytes.Equal(v, before.keys[k]) {
			c.Fail("prune-altered", "%s: %s changed; %s", step, why, desc)
			return false
		}
	}
	// every reachable commit whose table was complete before is still fully usable
	for _, i := range model.Bits(reach) {
		pt := pool[tblOf[i]]
		complete := true
		for _, k := range pt.keys {
			if _, ok := before.keys[k]; !ok {
				complete = false
			}
		}
		if complete {
			if msg := model.CheckTable(db, pt.st.sum, objects.BlockSize, true); msg != "" {
				c.Fail("prune-unusable", "%s: table of reachable node %d no longer sound: %s; %s", step, i, msg, desc)
				return false
			}
		}
	}
	// everything unreachable is gone
	for i := range sums {
		if reach&(1<<uint(i)) == 0 && db.Raw("com/"+string(sums[i])) != nil {
			c.Fail("prune-left-commit", "%s: unreachable commit of node %d still exists; %s", step, i, desc)
			return false
		}
	}
	// tables that only removed commits referenced; objects they share with the table of a reachable
	// commit are exempt even when that table object is absent (shallow commit: nobody can tell)
	removedTables := map[int]bool{}
	for i := range sums {
		if reach&(1<<uint(i)) == 0 {
			if _, was := before.keys["com/"+string(sums[i])]; was {
				removedTables[tblOf[i]] = true
			}
		}
	}
	sharedWithReachable := map[string]bool{}
	for ti := range keptTables {
		for _, k := range pool[ti].keys {
			sharedWithReachable[k] = true
		}
	}
	for ti, pt := range pool {
		if keptTables[ti] || !removedTables[ti] {
			continue
		}
		for _, k := range pt.keys {
			if _, was := before.keys[k]; !was {
				continue
			}
			if _, needed := mustKeep[k]; needed || sharedWithReachable[k] {
				continue // shared with a surviving table
			}
			if db.Raw(k) != nil {
				c.Fail("prune-left-garbage", "%s: %s %x belongs only to tables of removed commits but still exists; %s", step, k[:strings.Index(k, "/")], k[strings.Index(k, "/")+1:], desc)
				return false
			}
		}
	}
	return true
}

func c12Body(c *mc.Ctx) { c12BodyWith(c, false) }

// c12Merges: larger histories that contain a merge commit (4 commits, thorough 5), both parent orders,
// every commit carrying the same small table: the commit walk through second parents and side
// branches with history of their own.
func c12Merges(c *mc.Ctx) { c12BodyWith(c, true) }

func c12BodyWith(c *mc.Ctx, merges bool) {
	pool := c12Pool()
	nmax := 3
	if c.Thorough() {
		nmax = 4
	}
	n := 1 + c.Choose(nmax)
	if merges {
		n = 4
		if c.Thorough() {
			n = 4 + c.Choose(2)
		}
	}
	g := model.ChooseGraph(n, 2, c.Choose)
	if merges {
		if !hasMerge(g) {
			c.Skip()
		}
		if c.Choose(2) == 1 {
			g = g.SwapMergeParents()
		}
	}
	tblOf := make([]int, n)
	for i := range tblOf {
		if merges {
			tblOf[i] = 2
			continue
		}
		tblOf[i] = c.Choose(3)
		if c.ChooseDev(2) == 1 {
			tblOf[i] = 3 // the re-keyed table (deviation)
		}
	}
	absent := c.ChooseDev(8)
	nrefs := c.Choose(3)
	if merges && nrefs == 0 {
		c.Skip()
	}
	refs := make([]c12ref, nrefs)
	for i := range refs {
		refs[i] = c12ref{node: c.Choose(n)}
		refs[i].name = c12refName(c.ChooseDev(4), i)
	}
	del := c.Choose(nrefs + 1) // which ref is deleted between the prunes (nrefs = none)
	partial := c.ChooseDev(3)  // 0: tables complete; 1: a block of the absent... see below
	// the first prune is interrupted (the store fails from its k-th write on, for EVERY k) and then run again
	interrupt := c.ChooseDev(2) == 1
	c.Shard()
	db := stores.NewMemStore()
	used := map[int]bool{}
	for _, t := range tblOf {
		used[t] = true
	}
	for ti, pt := range pool {
		if absent&(1<<uint(ti)) != 0 || !used[ti] {
			// a table no commit refers to is outside the statement (nothing says prune must collect it)
			continue
		}
		for _, k := range pt.keys {
			db.PutRaw(k, tableCacheDB.Raw(k))
		}
	}
	// partial states a shallow fetch can leave: a table object without its profile / a stray block of an absent table
	if partial == 1 {
		db.DeleteRaw("tblsum/" + string(pool[2].st.sum))
	} else if partial == 2 && absent&1 != 0 && used[0] {
		db.PutRaw(pool[0].keys[3], tableCacheDB.Raw(pool[0].keys[3]))
	}
	tables := make([][]byte, n)
	times := make([]int, n)
	for i := range tables {
		tables[i] = pool[tblOf[i]].st.sum
		times[i] = i
	}
	sums, err := buildCommits(db, g, times, tables)
	if err != nil {
		panic(err)
	}
	rs := stores.NewMapRefStore()
	var rd []string
	for _, r := range refs {
		rs.Set(r.name, sums[r.node])
		rd = append(rd, fmt.Sprintf("%s->%d", r.name, r.node))
	}
	sort.Strings(rd)
	desc := fmt.Sprintf("parents=%v tables=%v absentTables=%v partial=%d refs=%v deleteRef=%d interruptedFirstPrune=%v", g.Parents, tblOf, model.Bits(uint64(absent)), partial, rd, del, interrupt)
	c.Logf("%s", desc)
	runPrune := func(step string) bool {
		before := c12snap(db)
		var perr error
		if p, st := mc.Try(func() { perr = prune.Prune(db, rs, nil) }); p != nil {
			c.Fail("prune-panic", "%s: Prune panicked: %v; %s\n%s", step, p, desc, firstLinesOf(st, 10))
			return false
		}
		if perr != nil {
			c.Fail("prune-error", "%s: Prune returned %v; %s", step, perr, desc)
			return false
		}
		return c12checkPrune(c, before, db, rs, g, sums, tblOf, pool, step, desc)
	}
	if interrupt {
		// differential oracle: whatever point the first prune was interrupted at, a second prune that
		// completes must leave exactly what one uninterrupted prune leaves - in particular nothing that
		// only the commits removed by the interrupted one referred to
		refDB := db.Snapshot()
		if err := prune.Prune(refDB, rs, nil); err != nil {
			c.Fail("prune-error", "first prune: Prune returned %v; %s", err, desc)
			return
		}
		// compared: commits, tables, blocks and block indices. The property's vocabulary keeps "table",
		// "table index" and "profile" apart and its garbage clause names tables and blocks only: a table
		// index / profile whose table object an interrupted prune had already deleted stays behind on the
		// unchanged tree (nothing lists them) and is not judged.
		judged := func(d *stores.MemStore) string {
			var ks []string
			for _, k := range d.Keys() {
				if !strings.HasPrefix(k, "tblidx/") && !strings.HasPrefix(k, "tblsum/") {
					ks = append(ks, k)
				}
			}
			return strings.Join(ks, "\n")
		}
		want := judged(refDB)
		for k := 1; k <= refDB.Writes(); k++ {
			d := db.Snapshot()
			d.FailWriteFrom = k
			var perr error
			if p, st := mc.Try(func() { perr = prune.Prune(d, rs, nil) }); p != nil {
				c.Fail("prune-panic", "Prune panicked when the store failed from write %d on: %v; %s\n%s", k, p, desc, firstLinesOf(st, 10))
				return
			}
			if perr == nil && d.Injected > 0 {
				c.Fail("prune-error-swallowed", "the store failed from write %d on, yet Prune reported success; %s", k, desc)
				return
			}
			d.FailWriteFrom = 0
			if p, st := mc.Try(func() { perr = prune.Prune(d, rs, nil) }); p != nil {
				c.Fail("prune-panic", "Prune panicked on the repository an interrupted prune (store failing from write %d on) left: %v; %s\n%s", k, p, desc, firstLinesOf(st, 10))
				return
			}
			if perr != nil {
				c.Fail("prune-error", "prune after a prune interrupted at write %d returned %v; %s", k, perr, desc)
				return
			}
			if got := judged(d); got != want {
				c.Fail("prune-interrupted-leaves-garbage", "a prune interrupted at write %d followed by a complete prune leaves %d objects, one uninterrupted prune leaves %d: %s; %s", k, d.Len(), refDB.Len(), keyDiff(want, got), desc)
				return
			}
		}
	}
	if !runPrune("first prune") {
		return
	}
	if del < nrefs {
		rs.Delete(refs[del].name)
	}
	if !runPrune("prune after deleting a ref") {
		return
	}
	k1 := strings.Join(db.Keys(), "\n")
	if !runPrune("repeated prune") {
		return
	}
	if k2 := strings.Join(db.Keys(), "\n"); k1 != k2 {
		c.Fail("prune-not-idempotent", "a second prune changed the store; %s", desc)
	}
	c.Outcome(fmt.Sprintf("left%dkeys", db.Len()))
	if n >= 2 && nrefs >= 1 {
		c.Nontrivial(desc)
	}
	if c.WantSample() && n >= 3 && nrefs >= 2 && del < nrefs {
		c.Sample(desc)
	}
}

// CLI: wrgl prune / wrgl gc on an on-disk repository
func c12CLI(c *mc.Ctx) {
	scenario := c.Choose(4)
	useGC := c.Choose(2) == 1
	c.Shard()
	desc := fmt.Sprintf("scenario=%d gc=%v", scenario, useGC)
	c.Logf("%s", desc)
	repo, err := newCLIRepo()
	if err != nil {
		panic("mc: cannot create CLI repository: " + err.Error())
	}
	defer repo.remove()
	cols := []string{"k", "v"}
	mk := func(name string, rows [][]string) string {
		p, _ := repo.writeFile(name, csvBytes(cols, rows, ','))
		return p
	}
	fa := mk("a.csv", [][]string{{"1", "a"}, {"2", "b"}})
	fb := mk("b.csv", [][]string{{"1", "a"}, {"3", "c"}})
	fc := mk("c.csv", [][]string{{"9", "z"}})
	steps := [][]string{
		{"commit", "main", fa, "m1", "-p", "k", "-n", "1"},
		{"commit", "main", fb, "m2", "-p", "k", "-n", "1"},
		{"commit", "side", fc, "s1", "-p", "k", "-n", "1"},
	}
	switch scenario {
	case 1:
		steps = append(steps, []string{"branch", "delete", "side"})
	case 2:
		steps = append(steps, []string{"reset", "main", "main^"})
	case 3:
		steps = append(steps, []string{"branch", "delete", "side"}, []string{"reset", "main", "main^"})
	}
	for _, s := range steps {
		if _, err := repo.run(nil, s...); err != nil {
			c.Fail("cli-error", "setup step %v failed: %v; %s", s, err, desc)
			return
		}
	}
	exportBefore := map[string]string{}
	for _, b := range []string{"main", "side"} {
		if out, err := repo.run(nil, "export", b); err == nil {
			exportBefore[b] = out
		}
	}
	cmdName := "prune"
	if useGC {
		cmdName = "gc"
	}
	var perr error
	if p, st := mc.Try(func() { _, perr = repo.run(nil, cmdName) }); p != nil {
		c.Fail("cli-panic", "wrgl %s panicked: %v; %s\n%s", cmdName, p, desc, firstLinesOf(st, 8))
		return
	}
	if perr != nil {
		c.Fail("cli-error", "wrgl %s failed: %v; %s", cmdName, perr, desc)
		return
	}
	for b, want := range exportBefore {
		out, err := repo.run(nil, "export", b)
		if err != nil || out != want {
			c.Fail("cli-prune-broke-branch", "after wrgl %s branch %s no longer exports the same rows (err %v); %s", cmdName, b, err, desc)
			return
		}
	}
	db, rs, closeFn, err := repo.open()
	if err != nil {
		c.Fail("cli-error", "reopen failed: %v", err)
		return
	}
	defer closeFn()
	if msg := model.CheckRepoRefs(db, rs); msg != "" {
		c.Fail("cli-prune-broke-branch", "%s; %s", msg, desc)
	}
	coms, _ := objects.GetAllCommitKeys(db)
	wantCommits := map[int]int{0: 3, 1: 2, 2: 2, 3: 1}[scenario]
	if len(coms) != wantCommits {
		c.Fail("cli-prune-left-commit", "after wrgl %s the store holds %d commits, %d are reachable from refs; %s", cmdName, len(coms), wantCommits, desc)
	}
	c.Outcome(fmt.Sprintf("commits%d", len(coms)))
	c.Nontrivial(desc)
	if c.WantSample() {
		c.Sample(desc)
	}
}

func init() {
	register(&mc.Check{
		ID:    "C12",
		Level: "exploration",
		Rule: "every commit DAG with 1..3 (thorough 4) nodes x every assignment of tables from a pool {300 rows, the same + 1 trailing row (shares a block), 2 rows, the 300 rows again under a two-column key (same blocks, other block indices)} x 0..2 refs on any node x which ref is deleted between prunes, completely; crossed with up to d deviations over: ref kind {head, tag, remote-tracking, transaction ref}, " +
			"a set of tables absent (shallow commits), a table lacking its profile / a stray block of an absent table. Plus every DAG of 4 (thorough 5) commits that contains a merge commit, both parent orders, 1..2 refs on any node. Script per case: prune; delete the chosen ref; prune; prune again. After every prune the store is compared with a reachability model computed on the pre-prune snapshot: " +
			"every reachable commit and every object of its table that existed is byte-identical and the table still passes the structural oracle; every unreachable commit, every table only they referenced and every block only those tables referenced is gone; the third prune changes nothing; no panic, no error. " +
			"cli: wrgl prune / wrgl gc after branch deletion and reset on an on-disk repository, exports compared. non-trivial = at least 2 commits and 1 ref; distinct by case description",
		Assumptions: []string{"refs live in a map-backed store (prune only lists refs)", "tables are drawn from a 3-table pool at the real block size"},
		Harnesses: []*mc.Harness{
			{Name: "histories", Body: c12Body, DevBound: map[string]int{"quick": 1, "thorough": 2}, Budget: map[string]time.Duration{"quick": 150 * time.Second, "thorough": 14 * time.Minute}},
			{Name: "merged-side-branches", Body: c12Merges, DevBound: map[string]int{"quick": 0, "thorough": 1}, Budget: map[string]time.Duration{"quick": 45 * time.Second, "thorough": 10 * time.Minute}},
			{Name: "cli-prune-gc", Body: c12CLI, Budget: map[string]time.Duration{"quick": 40 * time.Second, "thorough": 3 * time.Minute}},
		},
	})
}

// keyDiff names up to four keys present on one side only.
func keyDiff(want, got string) string {
	w := map[string]bool{}
	for _, k := range strings.Split(want, "\n") {
		w[k] = true
	}
	var extra, missing []string
	g := map[string]bool{}
	for _, k := range strings.Split(got, "\n") {
		g[k] = true
		if !w[k] {
			extra = append(extra, fmt.Sprintf("%q", k))
		}
	}
	for k := range w {
		if !g[k] {
			missing = append(missing, fmt.Sprintf("%q", k))
		}
	}
	sort.Strings(missing)
	if len(extra) > 4 {
		extra = extra[:4]
	}
	if len(missing) > 4 {
		missing = missing[:4]
	}
	return fmt.Sprintf("left over %v, missing %v", extra, missing)
}
