package checks

import (
	"bytes"
	"encoding/hex"
	"fmt"
	"io"
	"strings"
	"time"

	"github.com/go-logr/logr"
	apiutils "github.com/wrgl/wrgl/pkg/api/utils"
	"github.com/wrgl/wrgl/pkg/encoding/packfile"
	"github.com/wrgl/wrgl/pkg/objects"

	"verif/mc"
	"verif/model"
	"verif/stores"
)

// C07 — commits sent through packfiles are reproduced exactly at the destination.

type sentObject struct {
	typ int
	sum []byte
}

// transfer runs sender -> packfile(s) -> PackfileReader -> ObjectReceiver until the sender is done.
// It returns the sequence of objects in the order the receiver persisted them.
func transfer(src, dst objects.Store, toSend []*objects.Commit, tables map[string]struct{}, commons [][]byte, maxSize uint64, expected [][]byte) (seq []sentObject, packfiles int, doneAt int, err error) {
	snd, err := apiutils.NewObjectSender(src, toSend, tables, commons, maxSize)
	if err != nil {
		return nil, 0, -1, fmt.Errorf("NewObjectSender: %v", err)
	}
	hook := apiutils.WithReceiverSaveObjectHook(func(t int, sum []byte) {
		seq = append(seq, sentObject{t, append([]byte{}, sum...)})
	})
	rec := apiutils.NewObjectReceiver(dst, expected, logr.Discard(), hook)
	doneAt = -1
	for i := 0; i < 100000; i++ {
		var buf bytes.Buffer
		sdone, _, err := snd.WriteObjects(&buf, nil)
		if err != nil {
			return seq, packfiles, doneAt, fmt.Errorf("WriteObjects: %v", err)
		}
		packfiles++
		pr, err := packfile.NewPackfileReader(io.NopCloser(bytes.NewReader(buf.Bytes())))
		if err != nil {
			return seq, packfiles, doneAt, fmt.Errorf("NewPackfileReader: %v", err)
		}
		rdone, err := rec.Receive(pr, nil)
		if err != nil {
			return seq, packfiles, doneAt, fmt.Errorf("Receive (packfile %d): %v", packfiles, err)
		}
		if rdone && doneAt < 0 {
			doneAt = packfiles
		}
		if sdone {
			if !rdone {
				return seq, packfiles, doneAt, fmt.Errorf("sender finished after %d packfiles but the receiver still expects commits", packfiles)
			}
			return seq, packfiles, doneAt, nil
		}
		if rdone {
			return seq, packfiles, doneAt, fmt.Errorf("receiver reports done after packfile %d but the sender has more to send", packfiles)
		}
	}
	return seq, packfiles, doneAt, fmt.Errorf("transfer does not terminate")
}

func c07Body(c *mc.Ctx) {
	pool := c12Pool()
	n := 1 + c.Choose(3)
	g := model.ChooseGraph(n, 2, c.Choose)
	tblOf := make([]int, n)
	for i := range tblOf {
		tblOf[i] = c.Choose(3)
		if d := c.ChooseDev(4); d > 0 {
			tblOf[i] = 2 + d // the re-keyed 300-row table / the table whose composite key is not in column order / the 300 rows with a renamed column
		}
	}
	anc := g.Anc()
	// the destination already has an ancestor-closed set of commits
	var closed []uint64
	for m := uint64(0); m < 1<<uint(n); m++ {
		ok := true
		for _, i := range model.Bits(m) {
			if anc[i]&^m != 0 {
				ok = false
			}
		}
		if ok && m != 1<<uint(n)-1 {
			closed = append(closed, m)
		}
	}
	dstHas := closed[c.Choose(len(closed))]
	// which pool tables the destination holds beforehand (completely)
	dstTables := c.Choose(8)
	// commonCommits told to the sender: any subset of the commits the destination holds WITH their table
	// (the client only reports full commits as haves; a shallow commit is never acknowledged as common)
	var full uint64
	for _, i := range model.Bits(dstHas) {
		if dstTables&(1<<uint(tblOf[i])) != 0 {
			full |= 1 << uint(i)
		}
	}
	var subs []uint64
	for m := uint64(0); m <= full; m++ {
		if m&^full == 0 {
			subs = append(subs, m)
		}
	}
	commonMask := subs[c.Choose(len(subs))]
	strayBlock := c.ChooseDev(2) == 1 // block 0 of the 300-row table present without its table
	maxSize := []uint64{0, 1, 64, 4096}[c.ChooseDev(4)]
	lastOnly := c.ChooseDev(2) == 1  // tables only for the newest sent commit (depth 1)
	bareTable := c.ChooseDev(2) == 1 // a table object present at the destination without blocks or any index (left by an older writer)
	c.Shard()

	src := stores.NewMemStore()
	used := map[int]bool{}
	for _, t := range tblOf {
		used[t] = true
	}
	for ti, pt := range pool {
		if used[ti] {
			for _, k := range pt.keys {
				src.PutRaw(k, tableCacheDB.Raw(k))
			}
		}
	}
	tables := make([][]byte, n)
	times := make([]int, n)
	for i := range tables {
		tables[i] = pool[tblOf[i]].st.sum
		times[i] = i
	}
	sums, err := buildCommits(src, g, times, tables)
	if err != nil {
		panic(err)
	}
	dst := stores.NewMemStore()
	for _, i := range model.Bits(dstHas) {
		dst.PutRaw("com/"+string(sums[i]), src.Raw("com/"+string(sums[i])))
	}
	for ti, pt := range pool {
		if dstTables&(1<<uint(ti)) != 0 && used[ti] {
			for _, k := range pt.keys {
				dst.PutRaw(k, tableCacheDB.Raw(k))
			}
		}
	}
	if strayBlock && used[0] {
		dst.PutRaw(pool[0].keys[3], tableCacheDB.Raw(pool[0].keys[3]))
	}
	if bareTable {
		for ti, pt := range pool {
			if used[ti] && dstTables&(1<<uint(ti)) == 0 {
				k := "tbl/" + string(pt.st.sum)
				dst.PutRaw(k, tableCacheDB.Raw(k))
				break
			}
		}
	}
	var toSend []*objects.Commit
	var expected [][]byte
	tset := map[string]struct{}{}
	for i := 0; i < n; i++ {
		if dstHas&(1<<uint(i)) != 0 {
			continue
		}
		com, err := objects.GetCommit(src, sums[i])
		if err != nil {
			panic(err)
		}
		toSend = append(toSend, com)
		expected = append(expected, sums[i])
	}
	for j, com := range toSend {
		if !lastOnly || j == len(toSend)-1 {
			tset[string(com.Table)] = struct{}{}
		}
	}
	var commons [][]byte
	for _, i := range model.Bits(commonMask) {
		commons = append(commons, sums[i])
	}
	desc := fmt.Sprintf("parents=%v tables=%v destinationHasCommits=%v commonCommits=%v destinationHasTables=%v strayBlock=%v maxPackfileSize=%d tablesOnlyForNewest=%v bareTableObject=%v",
		g.Parents, tblOf, model.Bits(dstHas), model.Bits(commonMask), model.Bits(uint64(dstTables)), strayBlock, maxSize, lastOnly, bareTable)
	c.Logf("%s", desc)
	dstBefore := map[string]bool{}
	for _, k := range dst.Keys() {
		dstBefore[k] = true
	}
	var seq []sentObject
	var npf, doneAt int
	var terr error
	if p, st := mc.Try(func() { seq, npf, doneAt, terr = transfer(src, dst, toSend, tset, commons, maxSize, expected) }); p != nil {
		c.Fail("transfer-panic", "transfer panicked: %v; %s\n%s", p, desc, firstLinesOf(st, 10))
		return
	}
	// a common commit whose table the destination does not hold makes the sender skip a table the destination lacks
	commonTableMissing := false
	for _, i := range model.Bits(commonMask) {
		if dstTables&(1<<uint(tblOf[i])) == 0 {
			commonTableMissing = true
		}
	}
	if terr != nil {
		cls := "transfer-error"
		if commonTableMissing || strayBlock {
			cls = "transfer-error-shallow-common"
		}
		c.Fail(cls, "%v; %s", terr, desc)
		return
	}
	_ = doneAt
	// every sent commit reproduced byte for byte
	for _, com := range toSend {
		k := "com/" + string(com.Sum)
		if !bytes.Equal(dst.Raw(k), src.Raw(k)) || dst.Raw(k) == nil {
			c.Fail("commit-differs", "commit %x is not byte-identical at the destination; %s", com.Sum, desc)
			return
		}
	}
	// every table that was to be sent is complete, identical and sound at the destination
	for ts := range tset {
		ti := -1
		for i, pt := range pool {
			if string(pt.st.sum) == ts {
				ti = i
			}
		}
		skippedAsCommon := false
		for _, i := range model.Bits(commonMask) {
			if tblOf[i] == ti {
				skippedAsCommon = true
			}
		}
		if skippedAsCommon && dstTables&(1<<uint(ti)) == 0 {
			// the sender was told the destination has a commit with this table; the destination
			// holds that commit without its table (shallow): outside what the sender can know
			continue
		}
		for _, k := range pool[ti].keys {
			if strings.HasPrefix(k, "tblsum/") {
				if dst.Raw(k) == nil {
					c.Fail("table-incomplete", "profile of received table %d missing; %s", ti, desc)
					return
				}
				continue // the profile is rebuilt, compared structurally below
			}
			if !bytes.Equal(dst.Raw(k), src.Raw(k)) || dst.Raw(k) == nil {
				c.Fail("table-differs", "%s of table %d is missing or differs at the destination; %s", k[:strings.Index(k, "/")], ti, desc)
				return
			}
		}
		if msg := model.CheckTable(dst, []byte(ts), objects.BlockSize, true); msg != "" {
			c.Fail("table-unsound", "received table %d: %s; %s", ti, msg, desc)
			return
		}
		dt, err := objects.GetTable(dst, []byte(ts))
		if err != nil {
			c.Fail("table-unsound", "received table unreadable: %v; %s", err, desc)
			return
		}
		di, _ := objects.GetTableIndex(dst, []byte(ts))
		rows, _ := model.TableRows(dst, dt)
		var dpk []int
		for _, p := range dt.PK {
			dpk = append(dpk, int(p))
		}
		if _, ok := checkDiff(c, pool[ti].st, &storedTable{sum: []byte(ts), tbl: dt, idx: di, rows: rows, db: dst}, dpk, "diff(source table, received table) must be empty; "+desc); !ok {
			return
		}
	}
	// order of arrival: blocks before their table, table before a commit that needs it, parents before children
	have := map[string]bool{}
	for k := range dstBefore {
		have[k] = true
	}
	for pos, o := range seq {
		switch o.typ {
		case packfile.ObjectTable:
			t, err := objects.GetTable(dst, o.sum)
			if err == nil {
				for _, b := range t.Blocks {
					if !have["blk/"+string(b)] {
						c.Fail("order", "object %d: table %s arrived before its block %s; %s", pos, hex.EncodeToString(o.sum)[:7], hex.EncodeToString(b)[:7], desc)
						return
					}
				}
			}
			have["tbl/"+string(o.sum)] = true
		case packfile.ObjectBlock:
			have["blk/"+string(o.sum)] = true
		case packfile.ObjectCommit:
			cm, err := objects.GetCommit(dst, o.sum)
			if err == nil {
				for _, p := range cm.Parents {
					if !have["com/"+string(p)] {
						c.Fail("order", "object %d: commit %s arrived before its parent; %s", pos, hex.EncodeToString(o.sum)[:7], desc)
						return
					}
				}
				if _, want := tset[string(cm.Table)]; want && !have["tbl/"+string(cm.Table)] {
					skipped := false
					for _, i := range model.Bits(commonMask) {
						if bytes.Equal(tables[i], cm.Table) {
							skipped = true
						}
					}
					if !skipped {
						c.Fail("order", "object %d: commit %s arrived before its table; %s", pos, hex.EncodeToString(o.sum)[:7], desc)
						return
					}
				}
			}
			have["com/"+string(o.sum)] = true
		}
	}
	c.Outcome(fmt.Sprintf("packfiles%d-objects%d", ifInt(npf > 3, 4, npf), ifInt(len(seq) > 6, 7, len(seq))))
	if len(seq) >= 2 {
		c.Nontrivial(desc)
	}
	if c.WantSample() && npf > 1 && len(toSend) > 1 {
		c.Sample(map[string]any{"case": desc, "packfiles": npf, "objects": len(seq)})
	}
}

// every permutation of the object sequence of a small transfer is fed to a fresh receiver:
// whatever it accepts, no commit may be stored while a parent is missing and no table may
// be stored unless it is complete.
func c07Permutations(c *mc.Ctx) {
	src, pack := tinySourceRepo()
	_ = src
	pr, err := packfile.NewPackfileReader(io.NopCloser(bytes.NewReader(pack)))
	if err != nil {
		panic(err)
	}
	type obj struct {
		t int
		b []byte
	}
	var objs []obj
	for {
		t, b, err := pr.ReadObject()
		if err != nil {
			break
		}
		objs = append(objs, obj{t, append([]byte{}, b...)})
	}
	if len(objs) > 7 {
		objs = objs[:7]
	}
	perms := model.Perms(len(objs))
	shard := c.Choose(16)
	c.Shard()
	var tried int64
	for pi, p := range perms {
		if pi%16 != shard {
			continue
		}
		tried++
		dst := stores.NewMemStore()
		for step, j := range p {
			var buf bytes.Buffer
			pw, _ := packfile.NewPackfileWriter(&buf)
			pw.WriteObject(objs[j].t, objs[j].b)
			r, _ := packfile.NewPackfileReader(io.NopCloser(bytes.NewReader(buf.Bytes())))
			rec := apiutils.NewObjectReceiver(dst, nil, logr.Discard())
			var rerr error
			if pn, st := mc.Try(func() { _, rerr = rec.Receive(r, nil) }); pn != nil {
				c.Fail("transfer-panic", "Receive panicked on object order %v at step %d: %v\n%s", p, step, pn, firstLinesOf(st, 8))
				return
			}
			_ = rerr
			if msg := model.CheckRepoObjects(dst, objects.BlockSize); msg != "" {
				c.Fail("accepted-out-of-order", "after feeding the objects of a 2-commit transfer in order %v, step %d (error %v): %s", p, step, rerr, msg)
				return
			}
		}
	}
	c.Count("permutations", tried)
	c.Outcome("permutations-ok")
	c.Nontrivial(fmt.Sprintf("shard %d", shard))
	if c.WantSample() {
		c.Sample(map[string]any{"objects": len(objs), "permutations_in_shard": tried})
	}
}

// commit sequences: ONE receiver (one session) is fed every sequence of up to four distinct commits of
// a five-commit universe (root r, a(r), b(r), merge m(a,b), merge m2(b,a)) cut into packfiles at every
// position - complete or not, ordered or not. Whatever arrives, no commit may be stored while one of
// its parents (any of them, not just the first) is missing; a complete, parent-first
// sequence must be accepted.
var c07seqGraph = &model.Graph{Parents: [][]int{{}, {0}, {0}, {1, 2}, {2, 1}}}

func c07Sequences(c *mc.Ctx) {
	g := c07seqGraph
	n := g.N()
	ln := 1 + c.Choose(4)
	var seq []int
	used := 0
	for i := 0; i < ln; i++ {
		var opts []int
		for j := 0; j < n; j++ {
			if used&(1<<uint(j)) == 0 {
				opts = append(opts, j)
			}
		}
		j := opts[c.Choose(len(opts))]
		used |= 1 << uint(j)
		seq = append(seq, j)
	}
	cuts := c.Choose(1 << uint(ln-1)) // bit i: a new packfile starts after object i
	preset := c.Choose(3)             // commits the destination already holds: none / r / r and a
	tablePresent := c.ChooseDev(2) == 0
	expectLast := c.ChooseDev(2) == 1
	c.Shard()
	pt := c12Pool()[2]
	src := stores.NewMemStore()
	copyTableTo(src, pt)
	tables := make([][]byte, n)
	for i := range tables {
		tables[i] = pt.st.sum
	}
	times := make([]int, n)
	for i := range times {
		times[i] = i
	}
	sums, err := buildCommits(src, g, times, tables)
	if err != nil {
		panic(err)
	}
	raw := make([][]byte, n)
	for i, sum := range sums {
		com, err := objects.GetCommit(src, sum)
		if err != nil {
			panic(err)
		}
		var b bytes.Buffer
		if _, err := com.WriteTo(&b); err != nil {
			panic(err)
		}
		raw[i] = b.Bytes()
	}
	dst := stores.NewMemStore()
	if tablePresent {
		copyTableTo(dst, pt)
	}
	have := 0
	{
		for i := 0; i < preset; i++ {
			if _, err := objects.SaveCommit(dst, raw[i]); err != nil {
				panic(err)
			}
			have |= 1 << uint(i)
		}
	}
	desc := fmt.Sprintf("universe r, a(r), b(r), m(a,b), m2(b,a) = nodes 0..4; destination holds nodes %v, table present=%v; commits sent in order %v, packfile cuts mask %b, expected=%v", model.Bits(uint64(have)), tablePresent, seq, cuts, expectLast)
	c.Logf("%s", desc)
	var expected [][]byte
	if expectLast {
		expected = [][]byte{sums[seq[len(seq)-1]]}
	}
	rec := apiutils.NewObjectReceiver(dst, expected, logr.Discard())
	// the model: a commit is acceptable when its table and all its parents are at the destination
	acceptable := true
	model_ := have
	var packs [][]int
	cur := []int{}
	for i, j := range seq {
		cur = append(cur, j)
		if i == len(seq)-1 || cuts&(1<<uint(i)) != 0 {
			packs = append(packs, cur)
			cur = []int{}
		}
	}
	refused := false
	for pi, pk := range packs {
		var buf bytes.Buffer
		pw, _ := packfile.NewPackfileWriter(&buf)
		for _, j := range pk {
			pw.WriteObject(packfile.ObjectCommit, raw[j])
			ok := true // a commit may arrive without its table (depth-limited transfers do that)
			for _, p := range g.Parents[j] {
				if model_&(1<<uint(p)) == 0 {
					ok = false
				}
			}
			if ok && acceptable {
				model_ |= 1 << uint(j)
			} else {
				acceptable = false // the first unacceptable commit: from here on only the invariant is judged
			}
		}
		r, _ := packfile.NewPackfileReader(io.NopCloser(bytes.NewReader(buf.Bytes())))
		var rerr error
		if pn, st := mc.Try(func() { _, rerr = rec.Receive(r, nil) }); pn != nil {
			c.Fail("transfer-panic", "Receive panicked on packfile %d: %v; %s\n%s", pi, pn, desc, firstLinesOf(st, 8))
			return
		}
		if rerr != nil {
			refused = true
		}
		if msg := model.CheckRepoObjects(dst, objects.BlockSize); msg != "" {
			c.Fail("accepted-incomplete", "after packfile %d (error %v): %s; %s", pi, rerr, msg, desc)
			return
		}
		for j := 0; j < n; j++ {
			if objects.CommitExist(dst, sums[j]) {
				for _, p := range g.Parents[j] {
					if !objects.CommitExist(dst, sums[p]) {
						c.Fail("accepted-incomplete", "after packfile %d (error %v) commit node %d is stored while its parent node %d is missing; %s", pi, rerr, j, p, desc)
						return
					}
				}
			}
		}
		if acceptable && rerr != nil {
			c.Fail("refused-complete", "packfile %d of a complete, parent-first sequence was refused: %v; %s", pi, rerr, desc)
			return
		}
	}
	if acceptable {
		for j := 0; j < n; j++ {
			if (model_&(1<<uint(j)) != 0) != objects.CommitExist(dst, sums[j]) {
				c.Fail("complete-not-stored", "after a complete, parent-first sequence commit node %d stored=%v, expected %v; %s", j, objects.CommitExist(dst, sums[j]), !objects.CommitExist(dst, sums[j]), desc)
				return
			}
		}
	} else if !refused {
		c.Fail("incomplete-not-reported", "a sequence with a commit whose parent is missing was received without any error; %s", desc)
		return
	}
	c.Outcome(fmt.Sprintf("acceptable=%v-len%d", acceptable, ln))
	c.Nontrivial(desc)
	if c.WantSample() && !acceptable && ln == 3 {
		c.Sample(map[string]any{"case": desc})
	}
}

func init() {
	register(&mc.Check{
		ID:    "C07",
		Level: "exploration",
		Rule: "every commit fragment of 1..3 commits (chain, fork, merge, several roots) x every assignment of tables from {300 rows, the same + 1 trailing row (shares a block), 2 rows; as deviations: the 300 rows under a two-column key, 3 rows under a composite key not in column order, the 300 rows with a renamed column (same blocks and block indices, another table object)} x every ancestor-closed set of commits already at the destination x every set of tables the destination already holds x every subset of the destination's full commits named as common, completely; " +
			"crossed with up to d deviations over: max packfile size {default,1,64,4096}, a stray block present without its table, a table object present without its blocks and indices, tables requested only for the newest commit. The real ObjectSender writes packfiles, the real PackfileReader and ObjectReceiver consume them; " +
			"source and destination stores are compared (commits, tables, blocks, block indices byte-identical; profile present; structural oracle; DiffTables(source, received) empty), and the persisted object order must put blocks before their table, the table before its commit and parents before children. " +
			"Plus every permutation of the (up to 7) objects of a 2-commit transfer fed one by one to a fresh receiver: no commit stored without its parent, no table stored unless complete. Plus one receiver (one session) fed every sequence of up to four distinct commits of {r, a(r), b(r), m(a,b), m2(b,a)} cut into packfiles at every position, the destination holding none / r / r and a, with or without the table, with or without an expected-commit list: no commit is ever stored while ANY of its parents is missing, an incomplete sequence is reported, a complete parent-first one is accepted. non-trivial = at least 2 objects transferred; distinct by case description",
		Assumptions: []string{"only commits the destination holds together with their table are named as common (the sender's precondition, which the client side of the protocol establishes; shallow destinations are exercised end-to-end in C09)", "at most 3 commits and 3 tables per transfer"},
		Harnesses: []*mc.Harness{
			{Name: "transfers", Body: c07Body, DevBound: map[string]int{"quick": 1, "thorough": 3}, Budget: map[string]time.Duration{"quick": 150 * time.Second, "thorough": 12 * time.Minute}},
			{Name: "object-permutations", Body: c07Permutations, Budget: map[string]time.Duration{"quick": 60 * time.Second, "thorough": 5 * time.Minute}},
			{Name: "commit-sequences", Body: c07Sequences, DevBound: map[string]int{"quick": 1, "thorough": 2}, Budget: map[string]time.Duration{"quick": 60 * time.Second, "thorough": 5 * time.Minute}},
		},
	})
}
