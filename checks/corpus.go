package checks

import (
	"bytes"
	"fmt"
	"io"
	"strings"
	"time"

	"github.com/klauspost/compress/s2"
	"github.com/pckhoi/meow"
	"github.com/wrgl/wrgl/pkg/encoding"
	"github.com/wrgl/wrgl/pkg/encoding/packfile"
	"github.com/wrgl/wrgl/pkg/encoding/pktline"
	"github.com/wrgl/wrgl/pkg/misc"
	"github.com/wrgl/wrgl/pkg/objects"
)

// A decoder entry point that takes a stream: it must return a rendering of everything it
// decoded (objects, byte counts, end-of-stream condition) and may not panic.
type streamDecoder struct {
	name   string
	decode func(r io.Reader) (string, error)
}

type seedStream struct {
	name string
	dec  *streamDecoder
	data []byte
}

func renderErr(err error) string {
	if err == nil {
		return "nil"
	}
	if err == io.EOF {
		return "EOF"
	}
	return "error"
}

var (
	decCommit = &streamDecoder{"ReadCommitFrom", func(r io.Reader) (string, error) {
		n, c, err := objects.ReadCommitFrom(r)
		if err != nil {
			return "", err
		}
		return fmt.Sprintf("n=%d table=%x name=%q email=%q msg=%q time=%d parents=%x", n, c.Table, c.AuthorName, c.AuthorEmail, c.Message, c.Time.Unix(), c.Parents), nil
	}}
	decTable = &streamDecoder{"ReadTableFrom", func(r io.Reader) (string, error) {
		n, t, err := objects.ReadTableFrom(r)
		if err != nil {
			return "", err
		}
		return fmt.Sprintf("n=%d cols=%q pk=%v rows=%d blocks=%x idx=%x", n, t.Columns, t.PK, t.RowsCount, t.Blocks, t.BlockIndices), nil
	}}
	decBlock = &streamDecoder{"ReadBlockFrom", func(r io.Reader) (string, error) {
		n, b, err := objects.ReadBlockFrom(r)
		if err != nil {
			return "", err
		}
		return fmt.Sprintf("n=%d rows=%q", n, b), nil
	}}
	decBlockIndex = &streamDecoder{"ReadBlockIndex", func(r io.Reader) (string, error) {
		n, idx, err := objects.ReadBlockIndex(r)
		if err != nil {
			return "", err
		}
		var b bytes.Buffer
		idx.WriteTo(&b)
		return fmt.Sprintf("n=%d idx=%x", n, b.Bytes()), nil
	}}
	decProfile = &streamDecoder{"TableProfile.ReadFrom", func(r io.Reader) (string, error) {
		tp := &objects.TableProfile{}
		n, err := tp.ReadFrom(r)
		if err != nil {
			return "", err
		}
		var b bytes.Buffer
		tp.WriteTo(&b)
		return fmt.Sprintf("n=%d profile=%x", n, b.Bytes()), nil
	}}
	decStrList = &streamDecoder{"StrListDecoder.Read(sequence)", func(r io.Reader) (string, error) {
		d := objects.NewStrListDecoder(false)
		var sb strings.Builder
		for i := 0; i < 64; i++ {
			n, sl, err := d.Read(r)
			if err != nil {
				fmt.Fprintf(&sb, "end=%s", renderErr(err))
				if err != io.EOF {
					return sb.String(), err
				}
				return sb.String(), nil
			}
			fmt.Fprintf(&sb, "[n=%d %q]", n, sl)
		}
		return sb.String(), nil
	}}
	decStrListBytes = &streamDecoder{"StrListDecoder.ReadBytes(sequence)", func(r io.Reader) (string, error) {
		d := objects.NewStrListDecoder(false)
		var sb strings.Builder
		for i := 0; i < 64; i++ {
			n, b, err := d.ReadBytes(r)
			if err != nil {
				if n == 0 && strings.Contains(err.Error(), "EOF") && !strings.Contains(err.Error(), "unexpected") {
					sb.WriteString("end=EOF")
					return sb.String(), nil
				}
				return sb.String(), err
			}
			fmt.Fprintf(&sb, "[n=%d %x]", n, b)
		}
		return sb.String(), nil
	}}
	decUintList = &streamDecoder{"UintListDecoder.Read", func(r io.Reader) (string, error) {
		n, sl, err := objects.NewUintListDecoder(false).Read(r)
		if err != nil {
			return "", err
		}
		return fmt.Sprintf("n=%d %v", n, sl), nil
	}}
	decPktLines = &streamDecoder{"ReadPktLine(sequence)", func(r io.Reader) (string, error) {
		p := encoding.NewParser(r)
		var sb strings.Builder
		for i := 0; i < 64; i++ {
			s, err := pktline.ReadPktLine(p)
			if err != nil {
				fmt.Fprintf(&sb, "end=%s", renderErr(err))
				if err != io.EOF {
					return sb.String(), err
				}
				return sb.String(), nil
			}
			fmt.Fprintf(&sb, "[%q]", s)
		}
		return sb.String(), nil
	}}
	decPackfile = &streamDecoder{"PackfileReader", func(r io.Reader) (string, error) {
		pr, err := packfile.NewPackfileReader(io.NopCloser(r))
		if err != nil {
			return "", err
		}
		var sb strings.Builder
		fmt.Fprintf(&sb, "version=%d", pr.Version)
		for i := 0; i < 64; i++ {
			typ, b, err := pr.ReadObject()
			if err != nil {
				fmt.Fprintf(&sb, " end=%s", renderErr(err))
				if err != io.EOF {
					return sb.String(), err
				}
				return sb.String(), nil
			}
			fmt.Fprintf(&sb, " [type=%d len=%d sum=%x]", typ, len(b), meow.Checksum(0, b))
		}
		return sb.String(), nil
	}}
)

func mustBytes(f func(w io.Writer) error) []byte {
	var b bytes.Buffer
	if err := f(&b); err != nil {
		panic(err)
	}
	return b.Bytes()
}

func seedCommit(i int) []byte {
	c := &objects.Commit{Table: bytes.Repeat([]byte{byte(0x41 + i)}, 16), AuthorName: "Ann", AuthorEmail: "a@b.c", Message: "msg\nline2", Time: time.Unix(1700000000+int64(i), 0).UTC()}
	switch i {
	case 1:
		c.Parents = [][]byte{bytes.Repeat([]byte{0x50}, 16)}
		c.Message = ""
	case 2:
		c.Parents = [][]byte{bytes.Repeat([]byte{0x51}, 16), bytes.Repeat([]byte{0x52}, 16)}
		c.Time = time.Time{}
		c.AuthorName = ""
	}
	return mustBytes(func(w io.Writer) error { _, err := c.WriteTo(w); return err })
}

func seedTable(i int) []byte {
	t := objects.NewTable([]string{"id", "name", ""}, []uint32{0})
	switch i {
	case 0:
		t.RowsCount = 0
	case 1:
		t.RowsCount = 3
	case 2:
		t.RowsCount = 300
		t.PK = nil
	case 3:
		t.RowsCount = 511
		t.PK = []uint32{1, 0}
		t.Columns = []string{"a", "b"}
	case 4: // a long block list (40 blocks)
		t.RowsCount = 40*255 - 10
	}
	nb := int(objects.BlocksCount(t.RowsCount))
	for j := 0; j < nb; j++ {
		bs := bytes.Repeat([]byte{byte(0x61 + j)}, 16)
		is := bytes.Repeat([]byte{byte(0x71 + j)}, 16)
		bs[15], is[15] = byte(j), byte(j)
		t.Blocks = append(t.Blocks, bs)
		t.BlockIndices = append(t.BlockIndices, is)
	}
	return mustBytes(func(w io.Writer) error { _, err := t.WriteTo(w); return err })
}

func seedBlockRows(i int) [][]string {
	switch i {
	case 0:
		return [][]string{{"1", "q", "w"}}
	case 1:
		return [][]string{{"1", "q", ""}, {"2", "", "s"}, {"3", "z\n", "x"}}
	case 2:
		return [][]string{{"", ""}, {"a", strings.Repeat("L", 300)}}
	case 3:
		return [][]string{{"k"}, {"l"}, {"m"}, {"n"}}
	case 4:
		return [][]string{{}}
	}
	rows := [][]string{}
	for j := 0; j < 20; j++ {
		rows = append(rows, []string{fmt.Sprintf("%03d", j), "v"})
	}
	return rows
}

func seedBlock(i int) []byte {
	return mustBytes(func(w io.Writer) error {
		_, err := objects.WriteBlockTo(objects.NewStrListEncoder(true), w, seedBlockRows(i))
		return err
	})
}

func seedBlockIndex(i int) []byte {
	rows := seedBlockRows(i)
	var pk []uint32
	if i%2 == 1 {
		pk = []uint32{0}
	}
	idx, err := objects.IndexBlock(objects.NewStrListEncoder(true), meow.New(0), rows, pk)
	if err != nil {
		panic(err)
	}
	return mustBytes(func(w io.Writer) error { _, err := idx.WriteTo(w); return err })
}

func seedProfile(i int) []byte {
	f := func(v float64) *float64 { return &v }
	tp := &objects.TableProfile{Version: 1, RowsCount: 3, Columns: []*objects.ColumnProfile{
		{Name: "id", NACount: 1, Min: f(1), Max: f(3), Mean: f(2), Median: f(2), StdDeviation: f(0.8), Percentiles: []float64{1, 2, 3}, MinStrLen: 1, MaxStrLen: 1, AvgStrLen: 1},
		{Name: "name", TopValues: objects.ValueCounts{{Value: "q", Count: 2}, {Value: "", Count: 1}}, MaxStrLen: 4},
	}}
	if i == 1 {
		tp.Columns = tp.Columns[1:]
	}
	return mustBytes(func(w io.Writer) error { _, err := tp.WriteTo(w); return err })
}

func seedStrLists() []byte {
	enc := objects.NewStrListEncoder(false)
	var b bytes.Buffer
	for _, sl := range [][]string{{"a", "", "bc"}, {}, {"x"}, {"", ""}} {
		b.Write(enc.Encode(sl))
	}
	return b.Bytes()
}

func seedPktLines() []byte {
	var b bytes.Buffer
	buf := misc.NewBuffer(nil)
	for _, s := range []string{"want 0123", "", "have abc def", "x"} {
		pktline.WritePktLine(&b, buf, s)
	}
	return b.Bytes()
}

func seedPackfile(n int) []byte {
	var b bytes.Buffer
	pw, err := packfile.NewPackfileWriter(&b)
	if err != nil {
		panic(err)
	}
	objs := []struct {
		t int
		b []byte
	}{
		{packfile.ObjectBlock, s2.EncodeBetter(nil, seedBlock(1))},
		{packfile.ObjectTable, seedTable(1)},
		{packfile.ObjectCommit, seedCommit(0)},
	}
	for i := 0; i < n; i++ {
		if _, err := pw.WriteObject(objs[i%3].t, objs[i%3].b); err != nil {
			panic(err)
		}
	}
	return b.Bytes()
}

// seedStreams is the corpus of valid encodings shared by C17 and C18.
func seedStreams() []*seedStream {
	var out []*seedStream
	add := func(name string, d *streamDecoder, data []byte) {
		out = append(out, &seedStream{name: name, dec: d, data: data})
	}
	for i := 0; i < 3; i++ {
		add(fmt.Sprintf("commit%d", i), decCommit, seedCommit(i))
	}
	for i := 0; i < 5; i++ {
		add(fmt.Sprintf("table%d", i), decTable, seedTable(i))
	}
	for i := 0; i < 6; i++ {
		add(fmt.Sprintf("block%d", i), decBlock, seedBlock(i))
	}
	for i := 0; i < 3; i++ {
		add(fmt.Sprintf("blockindex%d", i), decBlockIndex, seedBlockIndex(i))
	}
	for i := 0; i < 2; i++ {
		add(fmt.Sprintf("profile%d", i), decProfile, seedProfile(i))
	}
	add("strlists", decStrList, seedStrLists())
	add("strlists-bytes", decStrListBytes, seedStrLists())
	add("uintlist", decUintList, append([]byte{}, objects.NewUintListEncoder().Encode([]uint32{0, 7, 1 << 31})...))
	add("pktlines", decPktLines, seedPktLines())
	for i := 1; i <= 3; i++ {
		add(fmt.Sprintf("packfile%d", i), decPackfile, seedPackfile(i))
	}
	return out
}

// longFieldStreams: valid streams whose single fields are long (hundreds of bytes to 64 KiB), so that one field
// arrives in hundreds or thousands of reads under fine-grained delivery. Used by C18 only.
func longFieldStreams() []*seedStream {
	var out []*seedStream
	add := func(name string, d *streamDecoder, data []byte) {
		out = append(out, &seedStream{name: name, dec: d, data: data})
	}
	long := func(n int, b byte) string {
		x := make([]byte, n)
		for i := range x {
			x[i] = b + byte(i%23)
		}
		return string(x)
	}
	for i, n := range []int{101, 300, 2000, 65535} {
		c := &objects.Commit{Table: bytes.Repeat([]byte{byte(0x41 + i)}, 16), AuthorName: long(n/2+1, 'A'), AuthorEmail: long(n/3+1, 'a'), Message: long(n, 'm'),
			Time: time.Unix(1700000000, 0).UTC(), Parents: [][]byte{bytes.Repeat([]byte{0x50}, 16)}}
		add(fmt.Sprintf("commit-long%d", n), decCommit, mustBytes(func(w io.Writer) error { _, err := c.WriteTo(w); return err }))
	}
	for _, n := range []int{101, 300, 65535} {
		t := objects.NewTable([]string{"id", long(n, 'c'), long(n/2, 'd')}, []uint32{0})
		t.RowsCount = 300
		for j := 0; j < 2; j++ {
			t.Blocks = append(t.Blocks, bytes.Repeat([]byte{byte(0x61 + j)}, 16))
			t.BlockIndices = append(t.BlockIndices, bytes.Repeat([]byte{byte(0x71 + j)}, 16))
		}
		add(fmt.Sprintf("table-longcol%d", n), decTable, mustBytes(func(w io.Writer) error { _, err := t.WriteTo(w); return err }))
	}
	for _, n := range []int{101, 300, 5000} {
		tp := &objects.TableProfile{Version: 1, RowsCount: 3, Columns: []*objects.ColumnProfile{
			{Name: long(n/2, 'n'), TopValues: objects.ValueCounts{{Value: long(n, 'q'), Count: 2}, {Value: "", Count: 1}}, MaxStrLen: uint16(n % 65536)},
		}}
		add(fmt.Sprintf("profile-long%d", n), decProfile, mustBytes(func(w io.Writer) error { _, err := tp.WriteTo(w); return err }))
	}
	for _, n := range []int{101, 300, 2000, 60000} {
		var b bytes.Buffer
		buf := misc.NewBuffer(nil)
		for _, l := range []string{"want 0123", long(n, 'p'), "", long(n/2, 'r')} {
			if err := pktline.WritePktLine(&b, buf, l); err != nil {
				panic("mc: infrastructure: cannot write a pkt-line of " + fmt.Sprint(len(l)) + " bytes: " + err.Error())
			}
		}
		add(fmt.Sprintf("pktlines-long%d", n), decPktLines, b.Bytes())
	}
	{
		enc := objects.NewStrListEncoder(false)
		var b bytes.Buffer
		for _, sl := range [][]string{{"a", long(300, 's'), ""}, {long(65535, 't')}, {"x"}} {
			b.Write(enc.Encode(sl))
		}
		add("strlists-long", decStrList, append([]byte{}, b.Bytes()...))
		add("strlists-long-bytes", decStrListBytes, append([]byte{}, b.Bytes()...))
	}
	return out
}
