package checks

import (
	"bytes"
	"context"
	"fmt"
	"os"
	"path/filepath"
	"strings"
	"time"

	"github.com/wrgl/wrgl/pkg/objects"
	"github.com/wrgl/wrgl/pkg/sorter"

	"verif/mc"
	"verif/model"
)

// C19 — external sort emits every distinct key once, in key order, at any memory limit.

type c19cfg struct {
	cols    []string
	pk      []int
	rows    [][]string
	runSize uint64
	removed map[int]bool
	setCols bool // ingest style (SetColumns) vs collector style (PK only)
	// prelude: the same Sorter first sorts another table and is Reset (as doctor / re-ingest do)
	prelude *c19cfg
}

func (k *c19cfg) String() string {
	d := fmt.Sprintf("pk=%v rows=%q runSize=%d removed=%v setColumns=%v", k.pk, k.rows, k.runSize, keysOf(k.removed), k.setCols)
	if k.prelude != nil {
		d += fmt.Sprintf(" after the same sorter sorted {cols=%q pk=%v rows=%q} and was Reset", k.prelude.cols, k.prelude.pk, k.prelude.rows)
	}
	return d
}

func keysOf(m map[int]bool) []int {
	var out []int
	for i := 0; i < 8; i++ {
		if m[i] {
			out = append(out, i)
		}
	}
	return out
}

func c19newSorter(k *c19cfg) (*sorter.Sorter, error) {
	s, err := sorter.NewSorter(sorter.WithRunSize(k.runSize))
	if err != nil {
		return nil, err
	}
	if p := k.prelude; p != nil {
		s.SetColumns(p.cols)
		s.PK = make([]uint32, len(p.pk))
		for i, x := range p.pk {
			s.PK[i] = uint32(x)
		}
		for _, r := range p.rows {
			if err := s.AddRow(r); err != nil {
				return nil, err
			}
		}
		errCh := make(chan error, 4)
		for range s.SortedBlocks(context.Background(), nil, errCh) {
		}
		select {
		case e := <-errCh:
			return nil, e
		default:
		}
		s.Reset()
	}
	if k.setCols {
		s.SetColumns(k.cols)
	}
	s.PK = make([]uint32, len(k.pk))
	for i, p := range k.pk {
		s.PK[i] = uint32(p)
	}
	for _, r := range k.rows {
		if err := s.AddRow(r); err != nil {
			return nil, err
		}
	}
	return s, nil
}

func c19removedArg(k *c19cfg) map[int]struct{} {
	if len(k.removed) == 0 {
		return nil
	}
	m := map[int]struct{}{}
	for i := range k.removed {
		m[i] = struct{}{}
	}
	return m
}

// sortedBlocksRows drains SortedBlocks and decodes the rows; also returns per-block first keys.
func c19blocks(k *c19cfg) (rows [][]string, blocks []*sorter.Block, err error) {
	s, err := c19newSorter(k)
	if err != nil {
		return nil, nil, err
	}
	defer s.Close()
	errCh := make(chan error, 4)
	ch := s.SortedBlocks(context.Background(), c19removedArg(k), errCh)
	for b := range ch {
		blocks = append(blocks, b)
		_, blk, e := objects.ReadBlockFrom(bytes.NewReader(b.Block))
		if e != nil {
			return nil, nil, fmt.Errorf("block %d does not decode: %v", b.Offset, e)
		}
		rows = append(rows, blk...)
	}
	select {
	case e := <-errCh:
		return nil, nil, e
	default:
	}
	if e := s.Close(); e != nil {
		return nil, nil, e
	}
	return rows, blocks, nil
}

func c19rows(k *c19cfg) (rows [][]string, err error) {
	s, err := c19newSorter(k)
	if err != nil {
		return nil, err
	}
	defer s.Close()
	errCh := make(chan error, 4)
	ch := s.SortedRows(context.Background(), c19removedArg(k), errCh)
	off := 0
	for r := range ch {
		if r.Offset != off {
			return nil, fmt.Errorf("row batch offsets not consecutive: got %d want %d", r.Offset, off)
		}
		off++
		for _, row := range r.Rows {
			rows = append(rows, append([]string{}, row...))
		}
	}
	select {
	case e := <-errCh:
		return nil, e
	default:
	}
	if e := s.Close(); e != nil {
		return nil, e
	}
	return rows, nil
}

func c19leftovers() []string {
	m, _ := filepath.Glob(filepath.Join(os.TempDir(), "sorted_chunk_*"))
	return m
}

// outPK maps original pk indices to indices after column removal.
func c19outPK(pk []int, removed map[int]bool) []int {
	out := make([]int, len(pk))
	for i, p := range pk {
		q := p
		for r := range removed {
			if r < p {
				q--
			}
		}
		out[i] = q
	}
	return out
}

func c19check(c *mc.Ctx, k *c19cfg, blockSize int) {
	desc := k.String()
	c.Logf("%s", desc)
	outPK := c19outPK(k.pk, k.removed)
	var brows, rrows [][]string
	var blocks []*sorter.Block
	var berr, rerr error
	if p, st := mc.Try(func() { brows, blocks, berr = c19blocks(k) }); p != nil {
		c.Fail(c19class("blocks-panic", k), "SortedBlocks panicked: %v; %s\n%s", p, desc, firstLinesOf(st, 12))
		berr = fmt.Errorf("panic")
	}
	if p, st := mc.Try(func() { rrows, rerr = c19rows(k) }); p != nil {
		c.Fail(c19class("rows-panic", k), "SortedRows panicked: %v; %s\n%s", p, desc, firstLinesOf(st, 12))
		rerr = fmt.Errorf("panic")
	}
	if berr != nil && berr.Error() != "panic" {
		c.Fail("blocks-error", "SortedBlocks failed: %v; %s", berr, desc)
	}
	if rerr != nil && rerr.Error() != "panic" {
		c.Fail("rows-error", "SortedRows failed: %v; %s", rerr, desc)
	}
	if berr == nil {
		if msg := model.CheckSortedUnique(k.rows, k.pk, k.removed, brows, outPK); msg != "" {
			c.Fail(c19class("blocks-content", k), "SortedBlocks: %s; got %q; %s", msg, brows, desc)
		} else {
			// block structure: full blocks, consecutive offsets, first key
			pos := 0
			for i, b := range blocks {
				if b.Offset != i {
					c.Fail("blocks-structure", "block %d has offset %d; %s", i, b.Offset, desc)
				}
				if i < len(blocks)-1 && b.RowsCount != blockSize {
					c.Fail("blocks-structure", "block %d (not the last) has %d rows, block size is %d; %s", i, b.RowsCount, blockSize, desc)
				}
				if b.RowsCount < 1 || b.RowsCount > blockSize || pos+b.RowsCount > len(brows) {
					c.Fail("blocks-structure", "block %d has RowsCount %d; %s", i, b.RowsCount, desc)
					break
				}
				first := brows[pos]
				var wantPK []string
				if len(k.pk) == 0 {
					wantPK = first
				} else {
					wantPK = model.Key(first, outPK)
				}
				if len(k.removed) == 0 && model.CmpKey(b.PK, wantPK) != 0 {
					c.Fail(c19class("block-first-key", k), "block %d reports first key %q but its first row is %q (key %q); %s", i, b.PK, first, wantPK, desc)
				}
				pos += b.RowsCount
			}
		}
	}
	if rerr == nil {
		if msg := model.CheckSortedUnique(k.rows, k.pk, k.removed, rrows, outPK); msg != "" {
			c.Fail(c19class("rows-content", k), "SortedRows: %s; got %q; %s", msg, rrows, desc)
		}
	}
	if berr == nil && rerr == nil && !c.Failed() {
		if fmt.Sprintf("%q", brows) != fmt.Sprintf("%q", rrows) {
			c.Fail("outputs-differ", "SortedBlocks rows %q != SortedRows rows %q; %s", brows, rrows, desc)
		}
	}
	if l := c19leftovers(); len(l) > 0 {
		c.Fail("spill-left", "spill files left after Close: %v; %s", l, desc)
		for _, f := range l {
			os.Remove(f)
		}
	}
	nk := len(model.DistinctKeys(k.rows, k.pk))
	c.Outcome(fmt.Sprintf("keys%d-of-%drows", nk, len(k.rows)))
	if len(k.rows) >= 2 {
		c.Nontrivial(desc)
	}
	if c.WantSample() && len(k.rows) >= 3 && nk < len(k.rows) && k.runSize < 100 {
		c.Sample(map[string]any{"case": desc, "sorted_blocks_rows": brows, "sorted_rows": rrows})
	}
}

// c19class names the narrow defect classes of the unchanged tree so that each can be
// recorded separately.
func c19class(base string, k *c19cfg) string {
	return base
}

func firstLinesOf(s string, n int) string {
	l := strings.Split(s, "\n")
	if len(l) > n {
		l = l[:n]
	}
	return strings.Join(l, "\n")
}

var c19pks = [][]int{{}, {0}, {1}, {0, 1}, {1, 0}, {2, 0}}

func c19Body(c *mc.Ctx) {
	maxRows := 4
	if c.Thorough() {
		maxRows = 5
	}
	k := &c19cfg{cols: []string{"p", "q", "r"}}
	nr := c.Choose(maxRows + 1)
	// second alphabet: a longer value that sorts before a shorter one ("ab" < "b"), which an order
	// taken from the length-prefixed encoding gets wrong
	// (quick: up to 3 rows)
	a0 := []string{"", "a", "b"}
	if (nr <= 3 || c.Thorough()) && c.Choose(2) == 1 {
		a0 = []string{"", "ab", "b"}
	}
	a1 := []string{"", "a"}
	a2 := []string{"x", "y"}
	for i := 0; i < nr; i++ {
		k.rows = append(k.rows, []string{mc.Pick(c, a0), mc.Pick(c, a1), mc.Pick(c, a2)})
	}
	k.pk = c19pks[c.Choose(len(c19pks))]
	// run sizes: nothing spills / every row spills alone / spill after about two rows (the rest stays in memory)
	k.runSize = []uint64{1 << 40, 1, 21}[c.Choose(3)]
	style := c.Choose(2)
	k.setCols = style == 0
	if k.setCols && (nr <= 3 || c.Thorough()) {
		// non-initial state: the sorter was used for another table before and Reset
		switch c.ChooseDev(4) {
		case 1:
			k.prelude = &c19cfg{cols: []string{"u", "v"}, rows: [][]string{{"1", "w"}, {"0", "z"}}}
		case 2:
			k.prelude = &c19cfg{cols: []string{"u", "v", "w", "x"}, pk: []int{3}, rows: [][]string{{"1", "w", "", "k"}}}
		case 3:
			k.prelude = &c19cfg{cols: []string{"u"}, rows: [][]string{{"b"}, {"a"}, {"b"}}}
		}
	}
	if !k.setCols {
		if len(k.pk) == 0 {
			c.Skip() // a keyless sorter without columns is the merge collector's configuration: judged in C05
		}
		// collector style: removed columns among the non-key columns
		var nonKey []int
		for i := 0; i < 3; i++ {
			isKey := false
			for _, p := range k.pk {
				if p == i {
					isKey = true
				}
			}
			if !isKey {
				nonKey = append(nonKey, i)
			}
		}
		m := c.Choose(1 << uint(len(nonKey)))
		k.removed = map[int]bool{}
		for j, col := range nonKey {
			if m&(1<<uint(j)) != 0 {
				k.removed[col] = true
			}
		}
	}
	c.Shard()
	c19check(c, k, 255)
}

// c19BodyB3 runs under the scaled block size (3 rows per block, `b3` overlay) so that
// duplicates and spills straddle block boundaries with a handful of rows.
func c19BodyB3(c *mc.Ctx) {
	needRewrite("blocksize:sorter")
	maxRows := 5
	if c.Thorough() {
		maxRows = 8
	}
	k := &c19cfg{cols: []string{"p", "q"}, setCols: true}
	nr := c.Choose(maxRows + 1)
	keys := []string{"", "a", "b", "c", "d"}
	for i := 0; i < nr; i++ {
		k.rows = append(k.rows, []string{mc.Pick(c, keys), []string{"x", "y"}[c.ChooseDev(2)]})
	}
	k.pk = [][]int{{0}, {}}[c.ChooseDev(2)]
	k.runSize = []uint64{1 << 40, 1, 17}[c.Choose(3)]
	c.Shard()
	c19check(c, k, 3)
}

// c19BodyRuns: longer inputs whose spilled runs hold three or four rows each (several runs, the
// last one staying in memory), so that duplicates sit inside a run, across runs and across the
// scaled block boundaries, and the sorter's row buffers are reused from one run to the next.
func c19BodyRuns(c *mc.Ctx) {
	needRewrite("blocksize:sorter")
	minRows, maxRows := 5, 7
	if c.Thorough() {
		maxRows = 9
	}
	k := &c19cfg{cols: []string{"p", "q"}, setCols: true, pk: []int{0}}
	nr := minRows + c.Choose(maxRows-minRows+1)
	keys := []string{"a", "b", "c", "d"}
	for i := 0; i < nr; i++ {
		k.rows = append(k.rows, []string{mc.Pick(c, keys), []string{"x", "y"}[c.ChooseDev(2)]})
	}
	// a row of two one-byte cells counts 10 bytes: runs of 3 and of 4 rows
	k.runSize = []uint64{30, 40}[c.Choose(2)]
	c.Shard()
	c19check(c, k, 3)
}

func init() {
	register(&mc.Check{
		ID:    "C19",
		Level: "exploration",
		Rule: "every sequence of 0..4 (thorough 5) rows over 3 columns with cells {'',a,b}x{'',a}x{x,y} and (up to 3 rows; thorough all) {'',ab,b}x{'',a}x{x,y} x key in {none,[0],[1],[0,1],[1,0],[2,0]} x run size in {nothing spills, every row spills alone, spill after ~2 rows} " +
			"x configuration {SetColumns as ingest does, optionally on a Sorter that already sorted another table (narrower, wider, keyed) and was Reset; key only with every subset of non-key columns removed as the merge collector does}; both outputs (SortedBlocks, SortedRows) of two identically fed sorters are compared with " +
			"(plus, under the build-time overlay that scales the block size to 3 rows: every sequence of 0..5 (8) rows over 5 keys so that duplicates and spills straddle block boundaries; and every sequence of 5..7 (9) rows over 4 keys with spilled runs of 3 and of 4 rows, so that row buffers are reused from run to run) " +
			"sort+dedupe of the input (component-wise byte order), with each other, block first keys with the blocks' first rows, and TMPDIR is listed after Close. non-trivial = at least two rows; distinct by full case description",
		Assumptions: []string{
			"when several input rows carry one key, any of them may be the one kept",
			"a sorter with removed columns never has SetColumns called (no caller in the repository does; the profiler would index past the row)",
			"keyless sorter without columns (merge collector on keyless tables) is judged by C05, not here",
		},
		Harnesses: []*mc.Harness{
			{Name: "small-rows", Body: c19Body, DevBound: map[string]int{"quick": 1, "thorough": 1}, Budget: map[string]time.Duration{"quick": 150 * time.Second, "thorough": 10 * time.Minute}},
			{Name: "b3-block-boundaries", Variant: "b3", Body: c19BodyB3, DevBound: map[string]int{"quick": 2, "thorough": 3},
				Budget: map[string]time.Duration{"quick": 45 * time.Second, "thorough": 10 * time.Minute}},
			{Name: "b3-multi-row-runs", Variant: "b3", Body: c19BodyRuns, DevBound: map[string]int{"quick": 1, "thorough": 2},
				Budget: map[string]time.Duration{"quick": 45 * time.Second, "thorough": 10 * time.Minute}},
		},
	})
}
