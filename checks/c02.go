package checks

import (
	"bytes"
	"fmt"
	"os"
	"strings"
	"time"

	"verif/mc"
	"verif/model"
	"verif/stores"
)

// C02 — a table's identity depends only on its logical content.

func canonicalTable(cols []string, pk []int, rows [][]string) string {
	// rows sorted by key (keys unique)
	keys := model.DistinctKeys(rows, pk)
	byKey := map[string][]string{}
	for _, r := range rows {
		byKey[model.KeyString(model.Key(r, pk))] = r
	}
	var sb strings.Builder
	fmt.Fprintf(&sb, "cols=%q pk=%v rows=", cols, pk)
	for _, k := range keys {
		fmt.Fprintf(&sb, "%q", byKey[model.KeyString(k)])
	}
	return sb.String()
}

func sumOf(k *ingestCfg) ([]byte, error) {
	db := stores.NewMemStore()
	return ingestOnce(db, k, csvBytes(k.cols, k.rows, k.delim))
}

func permuteRows(rows [][]string, p []int) [][]string {
	out := make([][]string, len(rows))
	for i, j := range p {
		out[i] = rows[j]
	}
	return out
}

var c02runSizes = []uint64{0, 1, 25}
var c02delims = []rune{',', '|', '\t', ';'}

func c02Small(c *mc.Ctx) {
	ncols := 1 + c.Choose(3)
	maxRows := map[int]int{1: 3, 2: 3, 3: 2}[ncols]
	if c.Thorough() {
		maxRows = map[int]int{1: 3, 2: 4, 3: 3}[ncols]
	}
	cols := colNames[:ncols]
	pks := orderedPKs[ncols]
	pk := pks[c.Choose(len(pks))]
	nr := c.Choose(maxRows + 1)
	// the second alphabet has a longer value that sorts BEFORE a shorter one ("ab" < "b"): an order
	// taken from the length-prefixed encoding instead of the strings differs on it
	cells := [][]string{{"", "a", "b"}, {"", "b", "ab"}}[c.Choose(2)]
	var rows [][]string
	for i := 0; i < nr; i++ {
		row := make([]string, ncols)
		for j := range row {
			row[j] = mc.Pick(c, cells)
		}
		// canonical enumeration: rows strictly increasing as whole rows, keys unique
		if i > 0 && model.CmpKey(rows[i-1], row) >= 0 {
			c.Skip()
		}
		rows = append(rows, row)
	}
	if len(model.DistinctKeys(rows, pk)) != len(rows) {
		c.Skip()
	}
	c.Shard()
	canon := canonicalTable(cols, pk, rows)
	c.Logf("%s", canon)
	base := &ingestCfg{cols: cols, pk: pk, rows: rows, workers: 1, delim: ','}
	baseSum, err := sumOf(base)
	if err != nil {
		c.Fail("error", "ingest failed: %v; %s", err, canon)
		return
	}
	var key [16]byte
	copy(key[:], baseSum)
	c.Emit(key, canon)
	// every permutation x run size x workers x delimiter gives the same identifier
	perms := model.Perms(len(rows))
	n := 0
	for _, p := range perms {
		for _, rs := range c02runSizes {
			for w := 1; w <= 3; w++ {
				for _, d := range c02delims {
					if len(rows) >= 4 && !(rs == 0 && w == 1 && d == ',') && !(rs == 1 && w == 3 && d == '|') {
						continue
					}
					k := &ingestCfg{cols: cols, pk: pk, rows: permuteRows(rows, p), runSize: rs, workers: w, delim: d}
					s, err := sumOf(k)
					n++
					if err != nil {
						c.Fail("error", "ingest failed: %v; %s", err, k.describe())
						return
					}
					if !bytes.Equal(s, baseSum) {
						c.Fail("config-dependent", "same logical table, different identifiers: %x (rows in canonical order, no spill, 1 worker, ',') vs %x (%s)", baseSum, s, k.describe())
						return
					}
				}
			}
		}
	}
	// the same table through a sorter that sorted another table before (the reingest / doctor path)
	for _, rs := range c02runSizes {
		k := &ingestCfg{cols: cols, pk: pk, rows: rows, runSize: rs, workers: 1, delim: ',', reuse: true}
		s, err := sumOf(k)
		n++
		if err != nil {
			c.Fail("error", "ingest through a reused sorter failed: %v; %s", err, k.describe())
			return
		}
		if !bytes.Equal(s, baseSum) {
			c.Fail("config-dependent", "same logical table, different identifiers: %x with a fresh sorter vs %x with a sorter that sorted another table before and was Reset (%s)", baseSum, s, k.describe())
			return
		}
	}
	c.Count("ingests", int64(n))
	// neighbours: any single change of a cell, a column name, the column order or the key changes the identifier
	differ := func(what string, k *ingestCfg) {
		s, err := sumOf(k)
		if err != nil {
			return
		}
		n++
		if bytes.Equal(s, baseSum) {
			c.Fail("not-injective", "%s does not change the identifier %x; base %s; variant %s", what, baseSum, canon, k.describe())
		}
	}
	for i := range rows {
		for j := 0; j < ncols; j++ {
			for _, v := range []string{"", "a", "b", "c"} {
				if v == rows[i][j] {
					continue
				}
				nr := make([][]string, len(rows))
				for x := range rows {
					nr[x] = append([]string{}, rows[x]...)
				}
				nr[i][j] = v
				if len(model.DistinctKeys(nr, pk)) != len(nr) {
					continue
				}
				differ(fmt.Sprintf("changing cell (%d,%d) to %q", i, j, v), &ingestCfg{cols: cols, pk: pk, rows: nr, workers: 1, delim: ','})
			}
		}
	}
	for j := 0; j < ncols; j++ {
		nc := append([]string{}, cols...)
		nc[j] = "z"
		differ(fmt.Sprintf("renaming column %d", j), &ingestCfg{cols: nc, pk: pk, rows: rows, workers: 1, delim: ','})
	}
	if ncols >= 2 {
		// swap the first two column names (data stays): a different column order over the same cells
		nc := append([]string{}, cols...)
		nc[0], nc[1] = nc[1], nc[0]
		differ("swapping the names of columns 0 and 1", &ingestCfg{cols: nc, pk: pk, rows: rows, workers: 1, delim: ','})
	}
	for _, other := range pks {
		if fmt.Sprint(other) == fmt.Sprint(pk) {
			continue
		}
		if len(model.DistinctKeys(rows, other)) != len(rows) {
			continue
		}
		differ(fmt.Sprintf("changing the primary key to %v", other), &ingestCfg{cols: cols, pk: other, rows: rows, workers: 1, delim: ','})
	}
	c.Outcome(fmt.Sprintf("rows%d", len(rows)))
	if len(rows) >= 2 {
		c.Nontrivial(canon)
	}
	if c.WantSample() && len(rows) >= 3 {
		c.Sample(map[string]any{"table": canon, "ingests_compared": n})
	}
}

func c02Multi(c *mc.Ctx) {
	n := mc.Pick(c, []int{300, 511, 766})
	if n == 766 && !c.Thorough() {
		c.Skip()
	}
	pk := [][]int{{0}, {}}[c.Choose(2)]
	c.Shard()
	var rows [][]string
	for i := 0; i < n; i++ {
		rows = append(rows, []string{fmt.Sprintf("%04d", i), fmt.Sprintf("v%d", i%7)})
	}
	cols := []string{"k", "v"}
	orders := map[string][][]string{"ascending": rows}
	desc := make([][]string, n)
	inter := make([][]string, 0, n)
	for i := range rows {
		desc[n-1-i] = rows[i]
	}
	for i := 0; i < n; i += 2 {
		inter = append(inter, rows[i])
	}
	for i := 1; i < n; i += 2 {
		inter = append(inter, rows[i])
	}
	orders["descending"] = desc
	orders["evens-then-odds"] = inter
	var baseSum []byte
	cnt := 0
	for _, on := range []string{"ascending", "descending", "evens-then-odds"} {
		for _, rs := range []uint64{0, 1, 1600, uint64(n) * 8} {
			for w := 1; w <= 3; w++ {
				k := &ingestCfg{cols: cols, pk: pk, rows: orders[on], runSize: rs, workers: w, delim: ','}
				s, err := sumOf(k)
				cnt++
				if err != nil {
					c.Fail("error", "ingest failed: %v; order=%s %s", err, on, k.describe())
					return
				}
				if baseSum == nil {
					baseSum = s
				} else if !bytes.Equal(s, baseSum) {
					c.Fail("config-dependent", "same %d-row table, different identifiers: %x vs %x (order=%s runSize=%d workers=%d)", n, baseSum, s, on, rs, w)
					return
				}
			}
		}
	}
	c.Count("ingests", int64(cnt))
	c.Outcome(fmt.Sprintf("multi-%d", n))
	c.Nontrivial(fmt.Sprintf("n=%d pk=%v", n, pk))
	if c.WantSample() {
		c.Sample(map[string]any{"rows": n, "pk": pk, "ingests_compared": cnt})
	}
}

// CLI: committing the same logical data again (permuted, other mem-limit / workers) is detected as unchanged.
func c02CLI(c *mc.Ctx) {
	nrows := 2 + c.Choose(2)
	perm := c.Choose(6)
	memLimit := []string{"", "1"}[c.ChooseDev(2)]
	workers := []string{"1", "4"}[c.ChooseDev(2)]
	change := c.Choose(2) == 1 // second file differs in one cell: must be detected as a change
	c.Shard()
	rows := [][]string{{"1", "q"}, {"2", "a"}, {"3", "z"}}[:nrows]
	ps := model.Perms(nrows)
	p := ps[perm%len(ps)]
	desc := fmt.Sprintf("rows=%q second-commit-order=%v memLimit=%q workers=%s cellChanged=%v", rows, p, memLimit, workers, change)
	c.Logf("%s", desc)
	repo, err := newCLIRepo()
	if err != nil {
		panic("mc: cannot create CLI repository: " + err.Error())
	}
	defer repo.remove()
	cols := []string{"a", "b"}
	fp, _ := repo.writeFile("data.csv", csvBytes(cols, rows, ','))
	if _, err := repo.run(nil, "commit", "main", fp, "first", "-p", "a", "-n", "1", "--set-file", "--set-primary-key"); err != nil {
		c.Fail("cli-error", "first commit failed: %v; %s", err, desc)
		return
	}
	rows2 := permuteRows(rows, p)
	if change {
		rows2 = append([][]string{}, rows2...)
		rows2[0] = []string{rows2[0][0], rows2[0][1] + "!"}
	}
	repo.writeFile("data.csv", csvBytes(cols, rows2, ','))
	// the file is newer than anything committed so far (modification time set, not waited for)
	os.Chtimes(fp, time.Now().Add(10*time.Second), time.Now().Add(10*time.Second))
	args := []string{"commit", "main", "second", "-n", workers}
	if memLimit != "" {
		args = append(args, "--mem-limit", memLimit)
	}
	out, err := repo.run(nil, args...)
	if err != nil {
		c.Fail("cli-error", "second commit failed: %v; %s", err, desc)
		return
	}
	unchanged := strings.Contains(out, "hasn't changed since the last commit")
	if !change && !unchanged {
		c.Fail("cli-not-detected-unchanged", "re-committing the same rows was not detected as unchanged (output %q); %s", out, desc)
	}
	if change && unchanged {
		c.Fail("cli-change-missed", "a changed cell was reported as unchanged (output %q); %s", out, desc)
	}
	c.Outcome(fmt.Sprintf("unchanged=%v", unchanged))
	c.Nontrivial(desc)
	if c.WantSample() {
		c.Sample(desc)
	}
}

func init() {
	register(&mc.Check{
		ID:    "C02",
		Level: "exploration",
		Rule: "every logical table with unique keys over 1..3 columns, cells {'',a,b} and {'',b,ab}, every ordered key subset incl. none, up to 3 rows (2 for 3 columns; one more in thorough), enumerated canonically; for each: all row permutations x run sizes {none, every row, ~2 rows} x workers 1..3 x delimiters {, | tab ;}, each into a fresh store, and through a sorter that sorted another table before and was Reset, must give one identifier; " +
			"every single-cell change, column rename, column-name swap and key change must give a different one; across the whole family the map identifier -> logical table must be injective (cross-worker merge). " +
			"multi-block: 300/511/766-row tables x 3 file orders x 4 run sizes x 1..3 workers. cli: `wrgl commit --set-file` then a second commit of permuted / changed data with --mem-limit and -n variants must report unchanged / changed. " +
			"non-trivial = table of >= 2 rows; distinct by canonical table",
		Assumptions: []string{"cells are drawn from two 3-value alphabets (plus 'c' and 'z' for neighbours)", "schedule dependence of multi-worker ingest is decided by C16; here workers run free"},
		Harnesses: []*mc.Harness{
			{Name: "small", Body: c02Small, Budget: map[string]time.Duration{"quick": 60 * time.Second, "thorough": 12 * time.Minute}},
			{Name: "multi-block", Body: c02Multi, Budget: map[string]time.Duration{"quick": 40 * time.Second, "thorough": 5 * time.Minute}},
			{Name: "cli-unchanged", Body: c02CLI, DevBound: map[string]int{"quick": 1, "thorough": 2}, Budget: map[string]time.Duration{"quick": 60 * time.Second, "thorough": 5 * time.Minute}},
		},
	})
}
