package checks

import (
	"bytes"
	"encoding/csv"
	"fmt"
	"io"
	"verif/stores"

	"github.com/go-logr/logr"
	"github.com/wrgl/wrgl/pkg/ingest"
	"github.com/wrgl/wrgl/pkg/objects"
	"github.com/wrgl/wrgl/pkg/sorter"

	"verif/model"
)

type ingestCfg struct {
	cols    []string
	pk      []int // indices into cols, in key order
	rows    [][]string
	runSize uint64 // 0 = never spill
	workers int    // effective worker goroutines (>=1)
	delim   rune
	reuse   bool // the sorter sorted another (keyless) table before and was Reset, as doctor / reingest do
}

func (k *ingestCfg) pkNames() []string {
	out := make([]string, len(k.pk))
	for i, p := range k.pk {
		out[i] = k.cols[p]
	}
	return out
}

func (k *ingestCfg) describe() string {
	return fmt.Sprintf("cols=%q pk=%v rows=%s runSize=%d workers=%d delim=%q", k.cols, k.pk, shortRows(k.rows), k.runSize, k.workers, k.delim)
}

func shortRows(rows [][]string) string {
	if len(rows) > 8 {
		return fmt.Sprintf("%d rows, first %s", len(rows), shortRows(rows[:3]))
	}
	var b bytes.Buffer
	b.WriteByte('[')
	for i, r := range rows {
		if i > 0 {
			b.WriteByte(' ')
		}
		b.WriteByte('[')
		for j, c := range r {
			if j > 0 {
				b.WriteByte(' ')
			}
			if len(c) > 24 {
				fmt.Fprintf(&b, "<%d bytes %q…>", len(c), c[:6])
			} else {
				fmt.Fprintf(&b, "%q", c)
			}
		}
		b.WriteByte(']')
	}
	b.WriteByte(']')
	return b.String()
}

func csvBytes(cols []string, rows [][]string, delim rune) []byte {
	var b bytes.Buffer
	w := csv.NewWriter(&b)
	if delim != 0 {
		w.Comma = delim
	}
	w.Write(cols)
	for _, r := range rows {
		if len(r) == 1 && r[0] == "" {
			// encoding/csv writes a lone empty field as an empty line, which readers skip
			w.Flush()
			b.WriteString("\"\"\n")
			continue
		}
		w.Write(r)
	}
	w.Flush()
	return b.Bytes()
}

// parseCSV defines "the CSV's rows": what encoding/csv reads back from the text.
func parseCSV(b []byte, delim rune) (cols []string, rows [][]string, err error) {
	r := csv.NewReader(bytes.NewReader(b))
	if delim != 0 {
		r.Comma = delim
	}
	all, err := r.ReadAll()
	if err != nil {
		return nil, nil, err
	}
	if len(all) == 0 {
		return nil, nil, io.EOF
	}
	return all[0], all[1:], nil
}

type nopCloser struct{ io.Reader }

func (nopCloser) Close() error { return nil }

// ingestOnce ingests the CSV text through the real ingest.IngestTable.
func ingestOnce(db objects.Store, k *ingestCfg, text []byte) ([]byte, error) {
	opts := []sorter.SorterOption{}
	rs := k.runSize
	if rs == 0 {
		rs = 1 << 40
	}
	opts = append(opts, sorter.WithRunSize(rs))
	if k.delim != 0 && k.delim != ',' {
		opts = append(opts, sorter.WithDelimiter(k.delim))
	}
	s, err := sorter.NewSorter(opts...)
	if err != nil {
		return nil, err
	}
	if k.reuse {
		pre := []byte("u\nb\na\n")
		if k.delim != 0 && k.delim != ',' {
			pre = []byte("u\nb\na\n") // single column: no delimiter involved
		}
		if _, err := ingest.IngestTable(stores.NewMemStore(), s, nopCloser{bytes.NewReader(pre)}, nil, logr.Discard()); err != nil {
			return nil, fmt.Errorf("prelude ingest: %v", err)
		}
		s.Reset()
	}
	w := k.workers
	if w < 1 {
		w = 1
	}
	// the inserter reserves two of the requested workers for the sorter
	return ingest.IngestTable(db, s, nopCloser{bytes.NewReader(text)}, k.pkNames(), logr.Discard(), ingest.WithNumWorkers(w+2))
}

// checkStoredRows is the C01 oracle: the stored table has the CSV's columns, exactly one
// row per distinct key, each equal to some input row with that key, in ascending key order.
func checkStoredRows(db objects.Store, sum []byte, cols []string, pk []int, in [][]string) string {
	tbl, err := objects.GetTable(db, sum)
	if err != nil {
		return fmt.Sprintf("stored table cannot be read: %v", err)
	}
	if fmt.Sprintf("%q", tbl.Columns) != fmt.Sprintf("%q", cols) {
		return fmt.Sprintf("stored columns %q differ from the CSV's %q", tbl.Columns, cols)
	}
	if len(tbl.PK) != len(pk) {
		return fmt.Sprintf("stored pk %v differs from requested %v", tbl.PK, pk)
	}
	for i := range pk {
		if int(tbl.PK[i]) != pk[i] {
			return fmt.Sprintf("stored pk %v differs from requested %v", tbl.PK, pk)
		}
	}
	rows, err := model.TableRows(db, tbl)
	if err != nil {
		return "reading the stored rows failed: " + err.Error()
	}
	if int(tbl.RowsCount) != len(rows) {
		return fmt.Sprintf("recorded row count %d, rows present %d", tbl.RowsCount, len(rows))
	}
	if msg := model.CheckSortedUnique(in, pk, nil, rows, pk); msg != "" {
		return msg + fmt.Sprintf("; stored rows %s", shortRows(rows))
	}
	return ""
}
