package checks

import (
	"bytes"
	"encoding/binary"
	"fmt"
	"io"
	"runtime/metrics"
	"strings"
	"time"

	"github.com/go-logr/logr"
	"github.com/klauspost/compress/s2"
	"github.com/pckhoi/meow"
	apiutils "github.com/wrgl/wrgl/pkg/api/utils"
	"github.com/wrgl/wrgl/pkg/encoding/packfile"
	"github.com/wrgl/wrgl/pkg/objects"

	"verif/mc"
	"verif/model"
	"verif/stores"
)

// C17 — malformed or hostile bytes are rejected with an error, never a crash.

type countingReader struct {
	r     io.Reader
	Reads int
}

func (c *countingReader) Read(p []byte) (int, error) {
	c.Reads++
	return c.r.Read(p)
}

var allocSample = []metrics.Sample{{Name: "/gc/heap/allocs:bytes"}}

func heapAllocs() uint64 {
	metrics.Read(allocSample)
	return allocSample[0].Value.Uint64()
}

// hostile entry point: takes raw bytes, must return (possibly with an error) without panicking
type hostileTarget struct {
	name string
	run  func(b []byte) (reads int, err error)
}

func streamTarget(d *streamDecoder) *hostileTarget {
	return &hostileTarget{name: d.name, run: func(b []byte) (int, error) {
		cr := &countingReader{r: bytes.NewReader(b)}
		_, err := d.decode(cr)
		return cr.Reads, err
	}}
}

func storeTarget(name, prefix string, get func(db objects.Store, sum []byte) error) *hostileTarget {
	return &hostileTarget{name: name, run: func(b []byte) (int, error) {
		db := stores.NewMemStore()
		sum := bytes.Repeat([]byte{0x33}, 16)
		db.PutRaw(prefix+string(sum), b)
		return 0, get(db, sum)
	}}
}

var (
	tgtValidateBlock = &hostileTarget{name: "ValidateBlockBytes", run: func(b []byte) (int, error) { return 0, objects.ValidateBlockBytes(b) }}
	tgtGetCommit     = storeTarget("GetCommit", "com/", func(db objects.Store, s []byte) error { _, err := objects.GetCommit(db, s); return err })
	tgtGetTable      = storeTarget("GetTable", "tbl/", func(db objects.Store, s []byte) error { _, err := objects.GetTable(db, s); return err })
	tgtGetBlock      = storeTarget("GetBlock", "blk/", func(db objects.Store, s []byte) error { _, _, err := objects.GetBlock(db, nil, s); return err })
	tgtGetBlockIndex = storeTarget("GetBlockIndex", "blkidx/", func(db objects.Store, s []byte) error {
		_, _, err := objects.GetBlockIndex(db, nil, s)
		return err
	})
	tgtGetTableIndex = storeTarget("GetTableIndex", "tblidx/", func(db objects.Store, s []byte) error { _, err := objects.GetTableIndex(db, s); return err })
	tgtGetProfile    = storeTarget("GetTableProfile", "tblsum/", func(db objects.Store, s []byte) error {
		_, err := objects.GetTableProfile(db, s)
		return err
	})
)

// receive target: the bytes are a packfile fed to ObjectReceiver.Receive into an empty or a
// pre-populated store; after an error the store must still satisfy the object half of I-REPO.
func receiveTarget(prepopulated bool) *hostileTarget {
	name := "ObjectReceiver.Receive(empty store)"
	if prepopulated {
		name = "ObjectReceiver.Receive(pre-populated store)"
	}
	return &hostileTarget{name: name, run: func(b []byte) (int, error) {
		db := stores.NewMemStore()
		if prepopulated {
			src, _ := tinySourceRepo()
			for _, k := range src.Keys() {
				if strings.HasPrefix(k, "blk/") {
					db.PutRaw(k, src.Raw(k))
				}
			}
		}
		cr := &countingReader{r: bytes.NewReader(b)}
		pr, err := packfile.NewPackfileReader(io.NopCloser(cr))
		if err != nil {
			return cr.Reads, err
		}
		before := map[string]bool{}
		for _, k := range db.Keys() {
			before[k] = true
		}
		accepted := map[string]bool{}
		hook := apiutils.WithReceiverSaveObjectHook(func(objType int, sum []byte) {
			switch objType {
			case packfile.ObjectTable:
				accepted["tbl/"+string(sum)] = true
			case packfile.ObjectCommit:
				accepted["com/"+string(sum)] = true
			}
		})
		rec := apiutils.NewObjectReceiver(db, [][]byte{bytes.Repeat([]byte{1}, 16)}, logr.Discard(), hook)
		_, err = rec.Receive(pr, nil)
		if err != nil {
			// nothing of the rejected object may be left referenced: every table / commit key now present
			// was there before or was reported as successfully saved
			for _, k := range db.Keys() {
				if (strings.HasPrefix(k, "tbl/") || strings.HasPrefix(k, "com/")) && !before[k] && !accepted[k] {
					return cr.Reads, fmt.Errorf("REPO-INCONSISTENT: %s %x was left in the store by an object the receiver rejected (Receive returned %v)", k[:3], k[4:], err)
				}
			}
			// and every commit present has its parents
			for _, k := range db.Keys() {
				if strings.HasPrefix(k, "com/") {
					if c, e := objects.GetCommit(db, []byte(k[4:])); e == nil {
						for _, p := range c.Parents {
							if !objects.CommitExist(db, p) {
								return cr.Reads, fmt.Errorf("REPO-INCONSISTENT: commit %x stored while its parent %x is missing", k[4:], p)
							}
						}
					}
				}
			}
		}
		return cr.Reads, err
	}}
}

// tinySourceRepo builds a 2-commit repository and returns it with the packfile the real
// sender produces for it.
var tinyRepoCache struct {
	db   *stores.MemStore
	pack []byte
}

func tinySourceRepo() (*stores.MemStore, []byte) {
	if tinyRepoCache.db != nil {
		return tinyRepoCache.db, tinyRepoCache.pack
	}
	db := stores.NewMemStore()
	k1 := &ingestCfg{cols: []string{"a", "b"}, pk: []int{0}, rows: [][]string{{"1", "q"}, {"2", "w"}, {"3", "e"}}, workers: 1, delim: ','}
	t1, err := ingestOnce(db, k1, csvBytes(k1.cols, k1.rows, ','))
	if err != nil {
		panic(err)
	}
	k2 := &ingestCfg{cols: []string{"a", "b"}, pk: []int{0}, rows: [][]string{{"1", "q"}, {"2", "w"}, {"4", "r"}}, workers: 1, delim: ','}
	t2, err := ingestOnce(db, k2, csvBytes(k2.cols, k2.rows, ','))
	if err != nil {
		panic(err)
	}
	rs := stores.NewMapRefStore()
	c1, _ := commitTable(db, rs, "", t1, nil, 1)
	c2, _ := commitTable(db, rs, "main", t2, [][]byte{c1}, 2)
	com1, _ := objects.GetCommit(db, c1)
	com2, _ := objects.GetCommit(db, c2)
	snd, err := apiutils.NewObjectSender(db, []*objects.Commit{com1, com2}, map[string]struct{}{string(t1): {}, string(t2): {}}, nil, 0)
	if err != nil {
		panic(err)
	}
	var buf bytes.Buffer
	if _, _, err := snd.WriteObjects(&buf, nil); err != nil {
		panic(err)
	}
	tinyRepoCache.db, tinyRepoCache.pack = db, buf.Bytes()
	return db, buf.Bytes()
}

type hostileSeed struct {
	name    string
	data    []byte
	targets []*hostileTarget
}

func hostileSeeds() []*hostileSeed {
	var out []*hostileSeed
	for _, s := range seedStreams() {
		hs := &hostileSeed{name: s.name, data: s.data, targets: []*hostileTarget{streamTarget(s.dec)}}
		switch s.dec {
		case decCommit:
			hs.targets = append(hs.targets, tgtGetCommit)
		case decTable:
			hs.targets = append(hs.targets, tgtGetTable)
		case decBlock:
			hs.targets = append(hs.targets, tgtValidateBlock, tgtGetTableIndex)
		case decProfile:
			hs.targets = append(hs.targets, tgtGetProfile)
		}
		out = append(out, hs)
	}
	// compressed objects as the store holds them
	out = append(out, &hostileSeed{name: "compressed-block", data: s2.EncodeBetter(nil, seedBlock(1)), targets: []*hostileTarget{tgtGetBlock}})
	out = append(out, &hostileSeed{name: "compressed-blockindex", data: s2.EncodeBetter(nil, seedBlockIndex(1)), targets: []*hostileTarget{tgtGetBlockIndex}})
	_, pack := tinySourceRepo()
	out = append(out, &hostileSeed{name: "sender-packfile", data: pack, targets: []*hostileTarget{receiveTarget(false), receiveTarget(true), streamTarget(decPackfile)}})
	return out
}

// mutation families, each a complete enumeration over the seed
var mutationFamilies = []string{"truncate", "replace-byte", "overwrite-2", "overwrite-4", "insert-delete", "identity"}

func mutations(family string, seed []byte, f func(desc string, b []byte)) {
	n := len(seed)
	switch family {
	case "identity":
		f("unchanged", seed)
	case "truncate":
		for i := 0; i < n; i++ {
			f(fmt.Sprintf("truncated to %d bytes", i), seed[:i])
		}
	case "replace-byte":
		for i := 0; i < n; i++ {
			orig := seed[i]
			vals := []byte{0x00, 0x01, 0x7f, 0x80, 0xff, orig + 1, orig - 1}
			for bit := uint(0); bit < 8; bit++ {
				vals = append(vals, orig^(1<<bit))
			}
			for _, v := range vals {
				if v == orig {
					continue
				}
				b := append([]byte{}, seed...)
				b[i] = v
				f(fmt.Sprintf("byte %d: %02x -> %02x", i, orig, v), b)
			}
		}
	case "overwrite-2":
		for i := 0; i+2 <= n; i++ {
			for _, v := range []uint16{0, 1, 255, 256, 0xffff, 0x7fff, uint16(n), uint16(n + 1), uint16(n - 1)} {
				b := append([]byte{}, seed...)
				binary.BigEndian.PutUint16(b[i:], v)
				f(fmt.Sprintf("bytes %d..%d <- uint16 %d", i, i+1, v), b)
			}
		}
	case "overwrite-4":
		for i := 0; i+4 <= n; i++ {
			for _, v := range []uint32{0, 1, 255, 256, 0xffff, 0x7fffffff, 0xffffffff, uint32(n), uint32(n + 1), uint32(n - 1)} {
				b := append([]byte{}, seed...)
				binary.BigEndian.PutUint32(b[i:], v)
				f(fmt.Sprintf("bytes %d..%d <- uint32 %d", i, i+3, v), b)
			}
		}
	case "insert-delete":
		for i := 0; i <= n; i++ {
			for _, v := range []byte{0x00, 0xff, ' ', '\n'} {
				b := append(append(append([]byte{}, seed[:i]...), v), seed[i:]...)
				f(fmt.Sprintf("inserted %02x at %d", v, i), b)
			}
			if i < n {
				b := append(append([]byte{}, seed[:i]...), seed[i+1:]...)
				f(fmt.Sprintf("deleted byte %d", i), b)
			}
		}
	}
}

func runHostile(c *mc.Ctx, t *hostileTarget, seedName, how string, b []byte) bool {
	before := heapAllocs()
	var reads int
	var err error
	if p, st := mc.Try(func() { reads, err = t.run(b) }); p != nil {
		c.Fail(hostileClass(t, "panic"), "%s panicked on %d hostile bytes (%s of %s): %v\n%s", t.name, len(b), how, seedName, p, firstLinesOf(st, 12))
		return false
	}
	alloc := heapAllocs() - before
	if reads > 4*len(b)+64 {
		c.Fail(hostileClass(t, "reads"), "%s issued %d reads for %d input bytes (%s of %s)", t.name, reads, len(b), how, seedName)
		return false
	}
	if alloc > uint64(64*len(b))+1<<20 {
		cls := hostileClass(t, "alloc")
		if err != nil && strings.Contains(err.Error(), "s2: ") {
			// the s2 block codec allocates the decoded length its header declares before validating the body
			cls = hostileClass(t, "s2-declared-length")
		}
		c.Fail(cls, "%s allocated %d bytes for %d input bytes (%s of %s; returned err=%v)", t.name, alloc, len(b), how, seedName, err)
		return strings.HasPrefix(cls, "s2-declared-length")
	}
	if err != nil && len(err.Error()) > 18 && err.Error()[:18] == "REPO-INCONSISTENT:" {
		c.Fail("receive-leaves-unusable", "%s; input: %s of %s", err.Error(), how, seedName)
		return false
	}
	return true
}

func hostileClass(t *hostileTarget, kind string) string {
	return kind + ":" + t.name
}

func c17Mutations(c *mc.Ctx) {
	seeds := hostileSeeds()
	si := c.Choose(len(seeds))
	fam := mutationFamilies[c.Choose(len(mutationFamilies))]
	c.Shard()
	s := seeds[si]
	var n, errs int64
	ok := true
	for _, t := range s.targets {
		mutations(fam, s.data, func(desc string, b []byte) {
			if !ok {
				return
			}
			n++
			ok = runHostile(c, t, s.name, desc, b)
		})
		if !ok {
			break
		}
	}
	_ = errs
	c.Count("hostile_inputs", n)
	c.Outcome(fmt.Sprintf("%s-ok=%v", fam, ok))
	c.Nontrivial(s.name + "/" + fam)
	if c.WantSample() && fam == "overwrite-4" {
		c.Sample(map[string]any{"seed": s.name, "bytes": len(s.data), "family": fam, "targets": len(s.targets), "inputs": n})
	}
}

// all very short byte strings for every entry point
// c17Headers: crafted packfile object headers. The header is a variable-length integer (type in the
// first byte, 4 + 7k length bits, continuation flag in the top bit): canonical encodings of boundary
// lengths up to 2^64-1 and every string "first byte, k continuation bytes, final byte" for k = 0..11
// - lengths that are negative as int64, over-long encodings, headers that never end.
func c17Headers(c *mc.Ctx) {
	needRewrite("export:packfile-header")
	targets := []*hostileTarget{streamTarget(decPackfile), receiveTarget(false)}
	t := targets[c.Choose(len(targets))]
	part := c.Choose(2)
	c.Shard()
	// a valid packfile prologue (magic + version), taken from a packfile without objects
	pb := bytes.NewBuffer(nil)
	pw, err := packfile.NewPackfileWriter(pb)
	if err != nil {
		panic(err)
	}
	_ = pw
	prologue := append([]byte{}, pb.Bytes()...)
	var n int64
	ok := true
	try := func(hdr []byte, how string) {
		for _, body := range [][]byte{nil, {0x00}, {0x01, 0x02, 0x03}} {
			if !ok {
				return
			}
			n++
			b := append(append(append([]byte{}, prologue...), hdr...), body...)
			ok = runHostile(c, t, "packfile prologue", how, b)
		}
	}
	if part == 0 {
		lens := []uint64{1, 15, 16, 127, 128, 1<<11 - 1, 1 << 11, 1<<31 - 1, 1 << 31, 1<<32 - 1, 1 << 32, 1 << 53, 1 << 62, 1<<63 - 1, 1 << 63, 1<<63 + 1, 1<<64 - 1}
		for typ := 0; typ <= 7; typ++ {
			for _, u := range lens {
				try(packfile.VerifEncodeHeader(typ, u), fmt.Sprintf("canonical header type=%d length=%d", typ, u))
			}
		}
	} else {
		for _, first := range []byte{0x80, 0x90, 0xa0, 0xb0, 0xf0, 0xff, 0x9f} {
			for k := 0; k <= 11; k++ {
				for _, cont := range []byte{0x80, 0xff} {
					for _, final := range []int{0x00, 0x01, 0x08, 0x7f, -1} {
						hdr := []byte{first}
						for i := 0; i < k; i++ {
							hdr = append(hdr, cont)
						}
						if final >= 0 {
							hdr = append(hdr, byte(final))
						}
						try(hdr, fmt.Sprintf("raw header % x", hdr))
					}
				}
			}
		}
	}
	c.Count("hostile_inputs", n)
	c.Outcome(fmt.Sprintf("headers%d-ok=%v", part, ok))
	c.Nontrivial(fmt.Sprintf("%s/headers%d", t.name, part))
}

func c17Short(c *mc.Ctx) {
	targets := []*hostileTarget{
		streamTarget(decCommit), streamTarget(decTable), streamTarget(decBlock), streamTarget(decBlockIndex), streamTarget(decProfile),
		streamTarget(decStrList), streamTarget(decStrListBytes), streamTarget(decUintList), streamTarget(decPktLines), streamTarget(decPackfile),
		tgtValidateBlock, tgtGetCommit, tgtGetTable, tgtGetBlock, tgtGetBlockIndex, tgtGetTableIndex, tgtGetProfile, receiveTarget(false),
	}
	t := targets[c.Choose(len(targets))]
	part := c.Choose(4)
	c.Shard()
	var n int64
	ok := true
	try := func(b []byte) {
		if !ok {
			return
		}
		n++
		ok = runHostile(c, t, "short strings", fmt.Sprintf("% x", b), b)
	}
	switch part {
	case 0:
		try([]byte{})
		for a := 0; a < 256; a++ {
			try([]byte{byte(a)})
		}
	case 1:
		for a := 0; a < 256; a++ {
			for b := 0; b < 256; b++ {
				try([]byte{byte(a), byte(b)})
			}
		}
	default:
		alpha := []byte{0x00, 0x01, 0x80, 0xff, 'P', ' ', '\n'}
		l := part + 1 // 3 or 4
		idx := make([]int, l)
		for {
			b := make([]byte, l)
			for i := range b {
				b[i] = alpha[idx[i]]
			}
			try(b)
			// 8-byte variants: the short prefix followed by ff padding (counts and lengths inflated)
			try(append(append([]byte{}, b...), 0xff, 0xff, 0xff, 0xff))
			i := l - 1
			for i >= 0 {
				idx[i]++
				if idx[i] < len(alpha) {
					break
				}
				idx[i] = 0
				i--
			}
			if i < 0 {
				break
			}
		}
	}
	c.Count("hostile_inputs", n)
	c.Outcome(fmt.Sprintf("short%d-ok=%v", part, ok))
	c.Nontrivial(fmt.Sprintf("%s/%d", t.name, part))
	if c.WantSample() && part == 1 {
		c.Sample(map[string]any{"target": t.name, "inputs": n, "what": "all byte strings of length 2"})
	}
}

// hostile object sequences: every sequence of up to 4 objects from an alphabet of well-formed
// but mutually inconsistent objects (ragged / empty / wide blocks, tables recording another
// block's index sum, a wrong row count, a key index beyond the columns, commits over them).
type hostileObj struct {
	name string
	typ  int
	b    []byte
}

var hostileAlphabetCache []hostileObj

func hostileAlphabet() []hostileObj {
	if hostileAlphabetCache != nil {
		return hostileAlphabetCache
	}
	enc := objects.NewStrListEncoder(true)
	rawBlock := func(rows [][]string) []byte {
		return mustBytes(func(w io.Writer) error { _, err := objects.WriteBlockTo(enc, w, rows); return err })
	}
	honest := [][]string{{"1", "q", "w"}, {"2", "a", "s"}, {"3", "z", "x"}}
	blocks := map[string][]byte{
		"B-honest": rawBlock(honest),
		"B-ragged": rawBlock([][]string{{"1", "q", "w"}, {"2"}, {"3", "z", "x"}}),
		"B-empty":  rawBlock([][]string{}),
		"B-wide":   rawBlock([][]string{{"1", "q", "w", "extra"}, {"2", "a", "s", "extra"}}),
	}
	idx, err := objects.IndexBlock(objects.NewStrListEncoder(true), meow.New(0), honest, []uint32{0})
	if err != nil {
		panic(err)
	}
	idxBytes := mustBytes(func(w io.Writer) error { _, err := idx.WriteTo(w); return err })
	honestIdxSum := model.Hash(idxBytes)
	var out []hostileObj
	for _, n := range []string{"B-honest", "B-ragged", "B-empty", "B-wide"} {
		out = append(out, hostileObj{n, packfile.ObjectBlock, s2.EncodeBetter(nil, blocks[n])})
	}
	mkTable := func(name, blk string, rows uint32, pk []uint32) {
		t := objects.NewTable([]string{"a", "b", "c"}, pk)
		t.RowsCount = rows
		if rows > 0 {
			t.Blocks = [][]byte{model.Hash(blocks[blk])}
			t.BlockIndices = [][]byte{honestIdxSum}
		}
		out = append(out, hostileObj{name, packfile.ObjectTable, mustBytes(func(w io.Writer) error { _, err := t.WriteTo(w); return err })})
	}
	mkTable("T-honest", "B-honest", 3, []uint32{0})
	mkTable("T-over-ragged", "B-ragged", 3, []uint32{0})
	mkTable("T-over-empty", "B-empty", 1, []uint32{0})
	mkTable("T-over-wide", "B-wide", 2, []uint32{0})
	mkTable("T-wrong-count", "B-honest", 200, []uint32{0})
	mkTable("T-pk-out-of-range", "B-honest", 3, []uint32{7})
	mkTable("T-keyless-over-ragged", "B-ragged", 3, nil)
	// a two-block table over honest blocks: sound, with its two block-index sums swapped, and naming the first
	// block's index twice - each index it names is a valid index of SOME block, possibly one already stored
	full := make([][]string, 0, objects.BlockSize)
	for i := 0; i < objects.BlockSize; i++ {
		full = append(full, []string{fmt.Sprintf("0%03d", i), "q", "w"})
	}
	fullBytes := rawBlock(full)
	out = append(out, hostileObj{"B-full", packfile.ObjectBlock, s2.EncodeBetter(nil, fullBytes)})
	fidx, err := objects.IndexBlock(objects.NewStrListEncoder(true), meow.New(0), full, []uint32{0})
	if err != nil {
		panic(err)
	}
	fullIdxSum := model.Hash(mustBytes(func(w io.Writer) error { _, err := fidx.WriteTo(w); return err }))
	mkTwo := func(name string, i0, i1 []byte) {
		t := objects.NewTable([]string{"a", "b", "c"}, []uint32{0})
		t.RowsCount = uint32(objects.BlockSize) + 3
		t.Blocks = [][]byte{model.Hash(fullBytes), model.Hash(blocks["B-honest"])}
		t.BlockIndices = [][]byte{i0, i1}
		out = append(out, hostileObj{name, packfile.ObjectTable, mustBytes(func(w io.Writer) error { _, err := t.WriteTo(w); return err })})
	}
	mkTwo("T-two-honest", fullIdxSum, honestIdxSum)
	mkTwo("T-two-swapped-indices", honestIdxSum, fullIdxSum)
	mkTwo("T-two-first-index-twice", fullIdxSum, fullIdxSum)
	tblSum := model.Hash(out[4].b)
	com := &objects.Commit{Table: tblSum, AuthorName: "a", AuthorEmail: "b", Message: "m", Time: time.Unix(1700000000, 0).UTC()}
	out = append(out, hostileObj{"C-honest", packfile.ObjectCommit, mustBytes(func(w io.Writer) error { _, err := com.WriteTo(w); return err })})
	orphan := &objects.Commit{Table: tblSum, AuthorName: "a", AuthorEmail: "b", Message: "child", Time: time.Unix(1700000001, 0).UTC(), Parents: [][]byte{bytes.Repeat([]byte{0x77}, 16)}}
	out = append(out, hostileObj{"C-missing-parent", packfile.ObjectCommit, mustBytes(func(w io.Writer) error { _, err := orphan.WriteTo(w); return err })})
	hostileAlphabetCache = out
	return out
}

func c17Objects(c *mc.Ctx) {
	alpha := hostileAlphabet()
	maxLen := 3
	if c.Thorough() {
		maxLen = 4
	}
	n := 1 + c.Choose(maxLen)
	seq := make([]int, n)
	for i := range seq {
		seq[i] = c.Choose(len(alpha))
	}
	onePack := c.Choose(2) == 1
	prepop := c.Choose(2) == 1 // the store already received the honest block and table
	c.Shard()
	var names []string
	for _, i := range seq {
		names = append(names, alpha[i].name)
	}
	desc := fmt.Sprintf("objects %v in %s (honest block+table received before: %v)", names, map[bool]string{true: "one packfile", false: "one packfile per object"}[onePack], prepop)
	c.Logf("%s", desc)
	db := stores.NewMemStore()
	accepted := map[string]bool{}
	hook := apiutils.WithReceiverSaveObjectHook(func(objType int, sum []byte) {
		switch objType {
		case packfile.ObjectTable:
			accepted["tbl/"+string(sum)] = true
		case packfile.ObjectCommit:
			accepted["com/"+string(sum)] = true
		}
	})
	rec := apiutils.NewObjectReceiver(db, [][]byte{bytes.Repeat([]byte{1}, 16)}, logr.Discard(), hook)
	feed := func(objs []hostileObj) bool {
		var buf bytes.Buffer
		pw, _ := packfile.NewPackfileWriter(&buf)
		for _, o := range objs {
			pw.WriteObject(o.typ, o.b)
		}
		pr, err := packfile.NewPackfileReader(io.NopCloser(bytes.NewReader(buf.Bytes())))
		if err != nil {
			panic(err)
		}
		before := heapAllocs()
		var rerr error
		if p, st := mc.Try(func() { _, rerr = rec.Receive(pr, nil) }); p != nil {
			c.Fail("panic:ObjectReceiver.Receive(object sequence)", "ObjectReceiver.Receive panicked: %v; %s\n%s", p, desc, firstLinesOf(st, 12))
			return false
		}
		if a := heapAllocs() - before; a > uint64(64*buf.Len())+4<<20 {
			c.Fail("alloc:ObjectReceiver.Receive(object sequence)", "Receive allocated %d bytes for a %d-byte packfile; %s", a, buf.Len(), desc)
			return false
		}
		for _, k := range db.Keys() {
			if (strings.HasPrefix(k, "tbl/") || strings.HasPrefix(k, "com/")) && !accepted[k] {
				c.Fail("receive-leaves-unusable", "%s %x is in the store although the receiver never reported it as saved (Receive returned %v); %s", k[:3], k[4:], rerr, desc)
				return false
			}
			if strings.HasPrefix(k, "tbl/") {
				// whatever the receiver keeps as a table must be structurally sound (I-TABLE; the profile is not demanded)
				if msg := model.CheckTable(db, []byte(k[4:]), objects.BlockSize, false); msg != "" {
					c.Fail("receive-leaves-unusable", "the receiver stored table %x (Receive returned %v), which is not sound: %s; %s", k[4:], rerr, msg, desc)
					return false
				}
			}
			if strings.HasPrefix(k, "com/") {
				if cm, e := objects.GetCommit(db, []byte(k[4:])); e == nil {
					for _, p := range cm.Parents {
						if !objects.CommitExist(db, p) {
							c.Fail("receive-leaves-unusable", "commit stored while its parent is missing; %s", desc)
							return false
						}
					}
				}
			}
		}
		return true
	}
	var objs []hostileObj
	for _, i := range seq {
		objs = append(objs, alpha[i])
	}
	ok := true
	if prepop {
		ok = feed([]hostileObj{alpha[0], alpha[4]})
	}
	if !ok {
		return
	}
	if onePack {
		ok = feed(objs)
	} else {
		for _, o := range objs {
			if ok = feed([]hostileObj{o}); !ok {
				break
			}
		}
	}
	c.Outcome(fmt.Sprintf("stored%d-ok=%v", db.Len(), ok))
	if n >= 2 {
		c.Nontrivial(desc)
	}
	if c.WantSample() && n == 3 && seq[0] == 0 && seq[2] >= 4 {
		c.Sample(desc)
	}
}

func init() {
	register(&mc.Check{
		ID:    "C17",
		Level: "exploration",
		Rule: "complete edit-distance-1 neighbourhood of every valid encoding in the seed corpus (commits, tables, blocks, block indices, profiles, list sequences, pkt-lines, packfiles, s2-compressed block / block index, a real sender packfile): truncation at every offset; at every offset every replacement from {00,01,7f,80,ff,b+-1,b xor 2^i}; " +
			"2- and 4-byte big-endian overwrites with {0,1,255,256,ffff,7fff(ffff),ffffffff,len,len+-1} at every offset; one-byte insertion of {00,ff,space,newline} and deletion at every offset; plus ALL byte strings of length <= 2 and all strings of length 3..4 over {00,01,80,ff,P,space,newline} (also ff-padded) for every entry point " +
			"(ReadCommitFrom, ReadTableFrom, ReadBlockFrom, ValidateBlockBytes, ReadBlockIndex, TableProfile.ReadFrom, StrListDecoder.Read/ReadBytes, UintListDecoder.Read, ReadPktLine, PackfileReader, Get* on a store holding the bytes, ObjectReceiver.Receive into an empty and a pre-populated store). " +
			"plus crafted packfile object headers (canonical encodings of boundary lengths up to 2^64-1 for every type code; every raw header 'first byte, 0..11 continuation bytes 80/ff, final byte' - negative as int64, over-long, never ending) fed to the packfile reader and the receiver; plus every sequence of 1..3 (thorough 4) objects from an alphabet of 17 well-formed but mutually inconsistent packfile objects (honest / ragged / empty / wide / full 255-row blocks; tables over them recording another block's index sum, a wrong row count, a key index beyond the columns; a sound two-block table, the same with its two index sums swapped and with the first index named twice; commits incl. one with a missing parent) fed to one receiver, in one packfile or one per object; every table the receiver keeps must satisfy I-TABLE. " +
			"Oracle: returns without panic; reads <= 4*len+64; heap bytes allocated during the call <= 64*len + 1 MiB; after Receive every table key present is fully usable and every commit has its parents. Workers run under ulimit -v so a runaway allocation is a captured crash. " +
			"evaluations = (seed, mutation family) cases; counter hostile_inputs = decodes; non-trivial/distinct = (seed, family) or (entry point, length class)",
		Assumptions: []string{"byte strings further than one edit from a valid encoding are only covered up to length 4", "allocation is measured as the runtime's cumulative heap-allocation counter around the call in a single-goroutine worker"},
		Harnesses: []*mc.Harness{
			{Name: "packfile-headers", Body: c17Headers, MemKB: 6 << 20, Budget: map[string]time.Duration{"quick": 40 * time.Second, "thorough": 3 * time.Minute}},
			{Name: "mutations", Body: c17Mutations, MemKB: 8 << 20, Procs: 1, Budget: map[string]time.Duration{"quick": 60 * time.Second, "thorough": 10 * time.Minute}},
			{Name: "hostile-object-sequences", Body: c17Objects, MemKB: 8 << 20, Procs: 1, Budget: map[string]time.Duration{"quick": 60 * time.Second, "thorough": 10 * time.Minute}},
			{Name: "short-strings", Body: c17Short, MemKB: 8 << 20, Procs: 1, Budget: map[string]time.Duration{"quick": 60 * time.Second, "thorough": 10 * time.Minute}},
		},
	})
}
