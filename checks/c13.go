package checks

import (
	"bytes"
	"context"
	"fmt"
	"net/http/httptest"
	"os"
	"os/exec"
	"path/filepath"
	"sort"
	"strings"
	"time"

	"github.com/go-logr/logr"
	"github.com/wrgl/wrgl/pkg/diff"
	"github.com/wrgl/wrgl/pkg/ingest"
	"github.com/wrgl/wrgl/pkg/merge"
	"github.com/wrgl/wrgl/pkg/objects"
	"github.com/wrgl/wrgl/pkg/prune"
	"github.com/wrgl/wrgl/pkg/ref"
	"github.com/wrgl/wrgl/pkg/slice"
	"github.com/wrgl/wrgl/pkg/sorter"

	"verif/mc"
	"verif/model"
	"verif/refsrv"
	"verif/stores"
)

// C13 — a crash at any point leaves the repository consistent and the operation repeatable.

// an operation under crash test: setup builds the initial state; run performs the operation
type crashOp struct {
	name  string
	setup func() (*stores.MemStore, *stores.MapRefStore)
	run   func(db *stores.MemStore, rs *stores.MapRefStore) error
}

func repoConsistent(db *stores.MemStore, rs *stores.MapRefStore) string {
	if msg := model.CheckRepoRefs(db, rs); msg != "" {
		return msg
	}
	if msg := model.CheckRepoObjects(db, objects.BlockSize); msg != "" {
		return msg
	}
	for name, sum := range rs.M {
		if !strings.HasPrefix(name, "heads/") {
			continue
		}
		com, err := objects.GetCommit(db, sum)
		if err != nil {
			return fmt.Sprintf("branch %s unreadable: %v", name, err)
		}
		if !objects.TableExist(db, com.Table) {
			return fmt.Sprintf("branch %s points at commit %x whose table %x is missing", name, sum, com.Table)
		}
	}
	return ""
}

// primaryKeys lists commits, tables, blocks and block indices (derived table indices and
// profiles of tables that no longer exist are not part of what the property speaks about).
func primaryKeys(db *stores.MemStore) string {
	var out []string
	for _, k := range db.Keys() {
		if strings.HasPrefix(k, "tblidx/") || strings.HasPrefix(k, "tblsum/") {
			continue
		}
		out = append(out, k)
	}
	return strings.Join(out, "\n")
}

func refsString(rs *stores.MapRefStore) string {
	keys, _ := rs.FilterKey(nil, nil)
	var sb strings.Builder
	for _, k := range keys {
		fmt.Fprintf(&sb, "%s=%x;", k, rs.M[k])
	}
	return sb.String()
}

func cloneState(st *stores.CrashState) (*stores.MemStore, *stores.MapRefStore) {
	return st.DB.Snapshot(), st.RS.Snapshot()
}

// --- operations ---

func opCommit(rows [][]string, existingParent bool) *crashOp {
	cfg := &ingestCfg{cols: []string{"k", "v"}, pk: []int{0}, rows: rows, workers: 1, delim: ','}
	return &crashOp{
		name: fmt.Sprintf("commit of a %d-row table (branch exists: %v)", len(rows), existingParent),
		setup: func() (*stores.MemStore, *stores.MapRefStore) {
			db, rs := stores.NewMemStore(), stores.NewMapRefStore()
			if existingParent {
				old := &ingestCfg{cols: []string{"k", "v"}, pk: []int{0}, rows: [][]string{{"0", "old"}}, workers: 1, delim: ','}
				sum, err := ingestOnce(db, old, csvBytes(old.cols, old.rows, ','))
				if err != nil {
					panic(err)
				}
				if _, err := commitTable(db, rs, "main", sum, nil, 1); err != nil {
					panic(err)
				}
			}
			return db, rs
		},
		run: func(db *stores.MemStore, rs *stores.MapRefStore) error {
			// the library steps of `wrgl commit`: ingest, commit object, branch last
			sum, err := ingestOnce(db, cfg, csvBytes(cfg.cols, cfg.rows, ','))
			if err != nil {
				return err
			}
			var parents [][]byte
			if p, err := ref.GetHead(rs, "main"); err == nil {
				parents = [][]byte{p}
				// re-running after a completed run must not stack a second commit: the CLI user would
				// see "nothing changed"; model that by stopping when the head already carries this table
				if com, err := objects.GetCommit(db, p); err == nil && bytes.Equal(com.Table, sum) {
					return nil
				}
			}
			_, err = commitTable(db, rs, "main", sum, parents, 2)
			return err
		},
	}
}

// opCommitSame: the committed data is identical to a table another branch already carries (tables are
// content-addressed: the ingest writes objects that already exist and other commits depend on).
func opCommitSame(rows [][]string) *crashOp {
	op := opCommit(rows, true)
	inner := op.setup
	op.name = fmt.Sprintf("commit of a %d-row table that branch 'other' already carries", len(rows))
	op.setup = func() (*stores.MemStore, *stores.MapRefStore) {
		db, rs := inner()
		cfg := &ingestCfg{cols: []string{"k", "v"}, pk: []int{0}, rows: rows, workers: 1, delim: ','}
		sum, err := ingestOnce(db, cfg, csvBytes(cfg.cols, cfg.rows, ','))
		if err != nil {
			panic(err)
		}
		if _, err := commitTable(db, rs, "other", sum, nil, 3); err != nil {
			panic(err)
		}
		return db, rs
	}
	return op
}

func opReceive(n int, graphIdx int, maxSize uint64) *crashOp {
	pool := c12Pool()
	return &crashOp{
		name:  fmt.Sprintf("receive of a %d-commit transfer (graph %d, max packfile size %d) followed by the ref update", n, graphIdx, maxSize),
		setup: func() (*stores.MemStore, *stores.MapRefStore) { return stores.NewMemStore(), stores.NewMapRefStore() },
		run: func(db *stores.MemStore, rs *stores.MapRefStore) error {
			g := &model.Graph{Parents: [][][]int{{{}}, {{}, {0}}, {{}, {}}}[graphIdx]}
			src := stores.NewMemStore()
			tables := make([][]byte, g.N())
			times := make([]int, g.N())
			for i := range tables {
				pt := pool[i%2]
				for _, k := range pt.keys {
					src.PutRaw(k, tableCacheDB.Raw(k))
				}
				tables[i] = pt.st.sum
				times[i] = i
			}
			sums, err := buildCommits(src, g, times, tables)
			if err != nil {
				return err
			}
			var toSend []*objects.Commit
			var expected [][]byte
			tset := map[string]struct{}{}
			for i := range sums {
				if objects.CommitExist(db, sums[i]) {
					continue // already received before the crash
				}
				com, _ := objects.GetCommit(src, sums[i])
				toSend = append(toSend, com)
				expected = append(expected, sums[i])
				tset[string(com.Table)] = struct{}{}
			}
			if len(toSend) > 0 {
				if _, _, _, err := transfer(src, db, toSend, tset, nil, maxSize, expected); err != nil {
					return err
				}
			}
			return rs.Set("remotes/origin/main", sums[len(sums)-1])
		},
	}
}

func opPrune(variant int) *crashOp {
	pool := c12Pool()
	return &crashOp{
		name: fmt.Sprintf("prune (history variant %d)", variant),
		setup: func() (*stores.MemStore, *stores.MapRefStore) {
			db, rs := stores.NewMemStore(), stores.NewMapRefStore()
			g := &model.Graph{Parents: [][]int{{}, {0}, {0}, {}}}
			tblOf := [][]int{{0, 1, 2, 2}, {0, 0, 1, 2}, {2, 1, 0, 1}, {0, 1, 2, 2, 1}, {2, 0, 1, 0, 2}}[variant]
			times := []int{0, 1, 2, 3}
			if variant >= 3 {
				// a chain of three unreachable commits 2 <- 3 <- 4 (a deleted branch with history)
				g = &model.Graph{Parents: [][]int{{}, {0}, {0}, {2}, {3}}}
				times = []int{0, 1, 2, 3, 4}
			}
			tables := make([][]byte, len(tblOf))
			for i, t := range tblOf {
				for _, k := range pool[t].keys {
					db.PutRaw(k, tableCacheDB.Raw(k))
				}
				tables[i] = pool[t].st.sum
			}
			sums, err := buildCommits(db, g, times, tables)
			if err != nil {
				panic(err)
			}
			rs.M["heads/main"] = sums[1] // nodes 2.. are unreachable
			return db, rs
		},
		run: func(db *stores.MemStore, rs *stores.MapRefStore) error { return prune.Prune(db, rs, nil) },
	}
}

func opMerge(variant int) *crashOp {
	base := &ltable{cols: []string{"k", "c1", "c2"}, pk: "k", rows: []map[string]string{{"k": "a", "c1": "x", "c2": "y"}, {"k": "b", "c1": "x", "c2": "y"}}}
	x := &ltable{cols: base.cols, pk: "k", rows: []map[string]string{{"k": "a", "c1": "p", "c2": "y"}, {"k": "b", "c1": "x", "c2": "y"}}}
	y := &ltable{cols: base.cols, pk: "k", rows: []map[string]string{{"k": "a", "c1": "x", "c2": "y"}, {"k": "b", "c1": "x", "c2": "q"}, {"k": "c", "c1": "n", "c2": "n"}}}
	if variant == 1 {
		y = &ltable{cols: base.cols, pk: "k", rows: []map[string]string{{"k": "a", "c1": "x", "c2": "y"}}}
	}
	return &crashOp{
		name: fmt.Sprintf("3-way merge commit (variant %d)", variant),
		setup: func() (*stores.MemStore, *stores.MapRefStore) {
			db, rs := stores.NewMemStore(), stores.NewMapRefStore()
			var sums [][]byte
			for i, t := range []*ltable{base, x, y} {
				cfg := &ingestCfg{cols: t.cols, pk: t.pkIdx(), rows: t.matrix(), workers: 1, delim: ','}
				ts, err := ingestOnce(db, cfg, csvBytes(cfg.cols, cfg.rows, ','))
				if err != nil {
					panic(err)
				}
				var parents [][]byte
				if i > 0 {
					parents = [][]byte{sums[0]}
				}
				cs, err := commitTable(db, rs, []string{"base", "main", "other"}[i], ts, parents, i)
				if err != nil {
					panic(err)
				}
				sums = append(sums, cs)
			}
			return db, rs
		},
		run: func(db *stores.MemStore, rs *stores.MapRefStore) error {
			mainSum, _ := ref.GetHead(rs, "main")
			otherSum, _ := ref.GetHead(rs, "other")
			if ok, _ := ref.IsAncestorOf(db, otherSum, mainSum); ok {
				return nil // already merged
			}
			baseSum, err := ref.SeekCommonAncestor(db, mainSum, otherSum)
			if err != nil {
				return err
			}
			get := func(c []byte) (*objects.Commit, *objects.Table) {
				com, _ := objects.GetCommit(db, c)
				t, _ := objects.GetTable(db, com.Table)
				return com, t
			}
			bc, bt := get(baseSum)
			mc1, mt := get(mainSum)
			oc, ot := get(otherSum)
			buf, err := diff.BlockBufferWithSingleStore(db, []*objects.Table{bt, mt, ot})
			if err != nil {
				return err
			}
			collector, cleanup, err := merge.CreateRowCollector(db, bt)
			if err != nil {
				return err
			}
			defer cleanup()
			merger, err := merge.NewMerger(db, collector, buf, 65*time.Millisecond, bt, []*objects.Table{mt, ot}, bc.Table, [][]byte{mc1.Table, oc.Table}, logr.Discard())
			if err != nil {
				return err
			}
			mch, err := merger.Start()
			if err != nil {
				return err
			}
			var cd *diff.ColDiff
			var pending []*merge.Merge
			for m := range mch {
				if m.ColDiff != nil {
					cd = m.ColDiff
					continue
				}
				pending = append(pending, m)
			}
			for _, m := range pending {
				merger.SaveResolvedRow(m.PK, nil)
			}
			if err := merger.Error(); err != nil {
				return err
			}
			removed := map[int]struct{}{}
			for _, l := range cd.Removed {
				for col := range l {
					removed[int(col)] = struct{}{}
				}
			}
			cols := merger.Columns(removed)
			pk, err := slice.KeyIndices(cols, merger.PK())
			if err != nil {
				return err
			}
			blocks, err := merger.SortedBlocks(context.Background(), removed)
			if err != nil {
				return err
			}
			s, _ := sorter.NewSorter()
			sum, err := ingest.IngestTableFromBlocks(db, s, cols, pk, blocks, logr.Discard(), ingest.WithNumWorkers(1))
			if err != nil {
				return err
			}
			tbl, err := objects.GetTable(db, sum)
			if err != nil {
				return err
			}
			if err := ingest.ProfileTable(db, sum, tbl); err != nil {
				return err
			}
			_, err = commitTable(db, rs, "main", sum, [][]byte{mainSum, otherSum}, 9)
			return err
		},
	}
}

func c13ops() []*crashOp {
	var rows300 [][]string
	for i := 0; i < 300; i++ {
		rows300 = append(rows300, []string{fmt.Sprintf("%04d", i), "v"})
	}
	return []*crashOp{
		opCommit([][]string{{"1", "a"}, {"2", "b"}}, false),
		opCommit([][]string{{"1", "a"}, {"2", "b"}}, true),
		opCommit(rows300, true),
		opCommit(nil, false),
		opCommitSame([][]string{{"1", "a"}, {"2", "b"}}),
		opCommitSame(rows300),
		opReceive(1, 0, 0),
		opReceive(2, 1, 0),
		opReceive(2, 1, 1),
		opReceive(2, 2, 64),
		opPrune(0), opPrune(1), opPrune(2), opPrune(3), opPrune(4),
		opMerge(0), opMerge(1),
	}
}

func c13Library(c *mc.Ctx) {
	ops := c13ops()
	op := ops[c.Choose(len(ops))]
	mode := c.Choose(2) // 0 crash after write k, 1 injected error at write k
	k := c.Choose(40)
	k2 := 0 // thorough: the re-run dies too, after its k2-th write (0 = the re-run completes)
	if c.Thorough() && mode == 0 {
		k2 = c.Choose(41)
	}
	c.Shard()
	// uninterrupted run with a recorder: one run yields every crash state
	db, rs := op.setup()
	rec := stores.NewRecorder(db, rs)
	if err := op.run(db, rs); err != nil {
		c.Fail("op-error", "%s failed without any fault: %v", op.name, err)
		return
	}
	rec.Stop()
	W := len(rec.States) - 1
	if k > W {
		c.Skip()
	}
	wantRefs := refsString(rs)
	wantKeys := primaryKeys(db)
	desc := fmt.Sprintf("%s; %d store writes; ", op.name, W)
	var sdb *stores.MemStore
	var srs *stores.MapRefStore
	if mode == 0 {
		st := rec.States[k]
		desc += fmt.Sprintf("process dies after write #%d (%s)", k, st.After)
		sdb, srs = cloneState(st)
	} else {
		if k == 0 {
			c.Skip()
		}
		desc += fmt.Sprintf("write #%d returns an error", k)
		sdb, srs = op.setup()
		// count only object-store writes for injection (the ref store of this tier is a plain map);
		// the writes of the setup are not the operation's: positions are numbered from the operation's first write
		sdb.ResetCounters()
		sdb.FailWriteAt = k
		err := op.run(sdb, srs)
		if sdb.Injected > 0 && err == nil {
			c.Fail("error-swallowed", "an injected store error was not reported to the caller; %s", desc)
			return
		}
		if sdb.Injected == 0 {
			c.Skip()
		}
		sdb.FailWriteAt = 0
	}
	c.Logf("%s", desc)
	if msg := repoConsistent(sdb, srs); msg != "" {
		c.Fail("inconsistent-after-crash", "%s; %s", msg, desc)
		return
	}
	if k2 > 0 {
		// second crash: run the operation again on the crash state, recording, and continue from
		// the state after its k2-th write
		rec2 := stores.NewRecorder(sdb, srs)
		err := op.run(sdb, srs)
		rec2.Stop()
		if err != nil {
			c.Fail("rerun-error", "re-running the operation failed: %v; %s", err, desc)
			return
		}
		if k2 > len(rec2.States)-1 {
			c.Skip()
		}
		st2 := rec2.States[k2]
		desc += fmt.Sprintf("; the re-run dies after its write #%d (%s)", k2, st2.After)
		sdb, srs = cloneState(st2)
		if msg := repoConsistent(sdb, srs); msg != "" {
			c.Fail("inconsistent-after-crash", "%s; %s", msg, desc)
			return
		}
	}
	// the same operation run again must succeed and end where the uninterrupted run ends
	sdb.ResetCounters()
	if p, st := mc.Try(func() {
		if err := op.run(sdb, srs); err != nil {
			c.Fail("rerun-error", "re-running the operation failed: %v; %s", err, desc)
		}
	}); p != nil {
		c.Fail("rerun-panic", "re-running the operation panicked: %v; %s\n%s", p, desc, firstLinesOf(st, 8))
		return
	}
	if c.Failed() {
		return
	}
	if msg := repoConsistent(sdb, srs); msg != "" {
		c.Fail("inconsistent-after-rerun", "%s; %s", msg, desc)
		return
	}
	if got := refsString(srs); got != wantRefs {
		c.Fail("rerun-differs", "after crash + re-run the refs are %s, an uninterrupted run gives %s; %s", got, wantRefs, desc)
		return
	}
	if strings.HasPrefix(op.name, "prune") {
		if got := primaryKeys(sdb); got != wantKeys {
			c.Fail("rerun-differs", "after crash + re-run of prune the store holds a different set of commits / tables / blocks / block indices than after an uninterrupted prune; %s", desc)
			return
		}
	}
	c.Count("crash_or_fault_points", 1)
	c.Outcome(fmt.Sprintf("mode%d-consistent", mode))
	c.Nontrivial(desc)
	if c.WantSample() && k > 2 && mode == 0 {
		c.Sample(desc)
	}
}

// ---- CLI tier: the real command path as a subprocess killed at the k-th store write ----

type cliScenario struct {
	name  string
	setup func(r *cliRepo, remoteURL string) error // builds the state before the operation
	args  func(r *cliRepo) []string                // the operation
}

var c13srv struct {
	ts  *httptest.Server
	url string
}

func c13remote() string {
	if c13srv.ts != nil {
		return c13srv.url
	}
	pool := c12Pool()
	sdb, srs := stores.NewMemStore(), stores.NewMapRefStore()
	for _, pt := range pool {
		for _, k := range pt.keys {
			sdb.PutRaw(k, tableCacheDB.Raw(k))
		}
	}
	g := &model.Graph{Parents: [][]int{{}, {0}, {1}}}
	sums, err := buildCommits(sdb, g, []int{0, 1, 2}, [][]byte{pool[2].st.sum, pool[0].st.sum, pool[1].st.sum})
	if err != nil {
		panic(err)
	}
	srs.Set("heads/main", sums[2])
	c13srv.ts = httptest.NewServer(refsrv.New(sdb, srs))
	c13srv.url = c13srv.ts.URL
	return c13srv.url
}

func c13scenarios() []*cliScenario {
	csv := func(r *cliRepo, name string, rows [][]string) string {
		p, _ := r.writeFile(name, csvBytes([]string{"k", "v"}, rows, ','))
		return p
	}
	var rows300 [][]string
	for i := 0; i < 300; i++ {
		rows300 = append(rows300, []string{fmt.Sprintf("%04d", i), "v"})
	}
	twoBranches := func(r *cliRepo, _ string) error {
		a := csv(r, "a.csv", [][]string{{"1", "a"}, {"2", "b"}})
		if _, err := r.run(nil, "commit", "main", a, "base", "-p", "k", "-n", "1"); err != nil {
			return err
		}
		if _, err := r.run(nil, "branch", "create", "other", "main"); err != nil {
			return err
		}
		b := csv(r, "b.csv", [][]string{{"1", "a"}, {"2", "b"}, {"3", "c"}})
		_, err := r.run(nil, "commit", "other", b, "other adds 3", "-p", "k", "-n", "1")
		return err
	}
	return []*cliScenario{
		{name: "wrgl commit (new branch, 2 rows)",
			setup: func(r *cliRepo, _ string) error { csv(r, "d.csv", [][]string{{"1", "a"}, {"2", "b"}}); return nil },
			args: func(r *cliRepo) []string {
				return []string{"commit", "main", filepath.Join(r.root, "d.csv"), "msg", "-p", "k", "-n", "1"}
			}},
		{name: "wrgl commit (existing branch, 300 rows)",
			setup: func(r *cliRepo, _ string) error {
				a := csv(r, "a.csv", [][]string{{"1", "a"}})
				csv(r, "d.csv", rows300)
				_, err := r.run(nil, "commit", "main", a, "first", "-p", "k", "-n", "1")
				return err
			},
			args: func(r *cliRepo) []string {
				return []string{"commit", "main", filepath.Join(r.root, "d.csv"), "msg", "-p", "k", "-n", "1"}
			}},
		{name: "wrgl merge (fast-forward)", setup: twoBranches,
			args: func(r *cliRepo) []string { return []string{"merge", "main", "other", "-n", "1"} }},
		{name: "wrgl merge --no-ff", setup: twoBranches,
			args: func(r *cliRepo) []string { return []string{"merge", "main", "other", "--no-ff", "-n", "1"} }},
		{name: "wrgl merge (3-way)",
			setup: func(r *cliRepo, u string) error {
				if err := twoBranches(r, u); err != nil {
					return err
				}
				c := csv(r, "c.csv", [][]string{{"1", "a2"}, {"2", "b"}})
				_, err := r.run(nil, "commit", "main", c, "main edits 1", "-p", "k", "-n", "1")
				return err
			},
			args: func(r *cliRepo) []string { return []string{"merge", "main", "other", "-n", "1"} }},
		{name: "wrgl pull (new branch from remote)",
			setup: func(r *cliRepo, u string) error { _, err := r.run(nil, "remote", "add", "origin", u); return err },
			args: func(r *cliRepo) []string {
				return []string{"pull", "main", "origin", "refs/heads/main:refs/remotes/origin/main", "-n", "1"}
			}},
		{name: "wrgl transaction commit (one existing and one new branch)",
			setup: func(r *cliRepo, _ string) error {
				a := csv(r, "a.csv", [][]string{{"1", "a"}, {"2", "b"}})
				if _, err := r.run(nil, "commit", "main", a, "base", "-p", "k", "-n", "1"); err != nil {
					return err
				}
				out, err := r.run(nil, "transaction", "start")
				if err != nil {
					return err
				}
				id := strings.TrimSpace(out)
				if _, err := r.writeFile("tx.id", []byte(id)); err != nil {
					return err
				}
				b := csv(r, "b.csv", [][]string{{"1", "a"}, {"2", "b"}, {"3", "c"}})
				if _, err := r.run(nil, "commit", "main", b, "main in tx", "-p", "k", "-n", "1", "--txid", id); err != nil {
					return err
				}
				d := csv(r, "d.csv", [][]string{{"9", "z"}})
				_, err = r.run(nil, "commit", "fresh", d, "fresh in tx", "-p", "k", "-n", "1", "--txid", id)
				return err
			},
			args: func(r *cliRepo) []string {
				b, _ := os.ReadFile(filepath.Join(r.root, "tx.id"))
				return []string{"transaction", "commit", strings.TrimSpace(string(b))}
			}},
		{name: "wrgl transaction discard (two staged branches)",
			setup: func(r *cliRepo, _ string) error {
				a := csv(r, "a.csv", [][]string{{"1", "a"}, {"2", "b"}})
				if _, err := r.run(nil, "commit", "main", a, "base", "-p", "k", "-n", "1"); err != nil {
					return err
				}
				out, err := r.run(nil, "transaction", "start")
				if err != nil {
					return err
				}
				id := strings.TrimSpace(out)
				r.writeFile("tx.id", []byte(id))
				b := csv(r, "b.csv", [][]string{{"1", "a"}, {"2", "b"}, {"3", "c"}})
				if _, err := r.run(nil, "commit", "main", b, "main in tx", "-p", "k", "-n", "1", "--txid", id); err != nil {
					return err
				}
				d := csv(r, "d.csv", [][]string{{"9", "z"}})
				_, err = r.run(nil, "commit", "fresh", d, "fresh in tx", "-p", "k", "-n", "1", "--txid", id)
				return err
			},
			args: func(r *cliRepo) []string {
				b, _ := os.ReadFile(filepath.Join(r.root, "tx.id"))
				return []string{"transaction", "discard", strings.TrimSpace(string(b))}
			}},
		{name: "wrgl prune (after deleting a branch)",
			setup: func(r *cliRepo, u string) error {
				if err := twoBranches(r, u); err != nil {
					return err
				}
				_, err := r.run(nil, "branch", "delete", "other")
				return err
			},
			args: func(r *cliRepo) []string { return []string{"prune"} }},
	}
}

type c13template struct {
	repo      *cliRepo
	writes    int
	wantState string
}

var c13templates = map[int]*c13template{}

func copyDir(src, dst string) error {
	return exec.Command("cp", "-a", src, dst).Run()
}

// repoShape renders refs -> (table sum, number of parents) along first parents: what must be equal
// between an uninterrupted run and crash + re-run (commit times and sums differ).
func repoShape(r *cliRepo) (string, string) {
	db, rs, cl, err := r.open()
	if err != nil {
		return "", "cannot reopen: " + err.Error()
	}
	defer cl()
	if msg := model.CheckRepoStore(db, rs.(model.RefLister), objects.BlockSize); msg != "" {
		return "", msg
	}
	m, _ := ref.ListAllRefs(rs)
	var names []string
	for n := range m {
		names = append(names, n)
	}
	sort.Strings(names)
	var sb strings.Builder
	for _, n := range names {
		fmt.Fprintf(&sb, "%s:", n)
		cur := m[n]
		for i := 0; i < 10 && cur != nil; i++ {
			c, err := objects.GetCommit(db, cur)
			if err != nil {
				break
			}
			fmt.Fprintf(&sb, "[tbl %x parents %d]", c.Table[:4], len(c.Parents))
			if len(c.Parents) == 0 {
				break
			}
			cur = c.Parents[0]
		}
		sb.WriteString(";")
	}
	return sb.String(), ""
}

func runSub(r *cliRepo, env []string, args ...string) (int, string) {
	self, _ := os.Executable()
	cmd := exec.Command(self, append([]string{"cli", r.wrglDir, filepath.Join(r.root, "home")}, args...)...)
	cmd.Env = append(os.Environ(), env...)
	cmd.Dir = r.root
	out, err := cmd.CombinedOutput()
	if err == nil {
		return 0, string(out)
	}
	if ee, ok := err.(*exec.ExitError); ok {
		return ee.ExitCode(), string(out)
	}
	return -1, err.Error()
}

func c13CLI(c *mc.Ctx) { c13CLIWith(c, c13scenarios(), 0) }

// c14CLI: the transaction scenarios of the same tier, run by C14
func c14CLI(c *mc.Ctx) {
	var scs []*cliScenario
	for _, sc := range c13scenarios() {
		if strings.Contains(sc.name, "transaction") {
			scs = append(scs, sc)
		}
	}
	c13CLIWith(c, scs, 1000)
}

func c13CLIWith(c *mc.Ctx, scs []*cliScenario, tplBase int) {
	needRewrite("crashhook:badger")
	needRewrite("crashhook:refsql")
	needRewrite("crashhook:refsql-stmt")
	si := c.Choose(len(scs))
	k := 1 + c.Choose(60)
	c.Shard()
	sc := scs[si]
	tpl := c13templates[tplBase+si]
	if tpl == nil {
		repo, err := newCLIRepo()
		if err != nil {
			panic("mc: cannot create CLI repository: " + err.Error())
		}
		if err := sc.setup(repo, c13remote()); err != nil {
			panic("mc: scenario setup failed: " + err.Error())
		}
		// uninterrupted run on a copy, logging the writes
		work := &cliRepo{root: repo.root + "-full", wrglDir: filepath.Join(repo.root+"-full", ".wrgl")}
		os.RemoveAll(work.root)
		if err := copyDir(repo.root, work.root); err != nil {
			panic(err)
		}
		logf := filepath.Join(work.root, "writes.log")
		code, out := runSub(work, []string{"VERIF_WRITE_LOG=" + logf}, sc.args(work)...)
		if code != 0 {
			c.Fail("cli-op-error", "%s failed without any crash (exit %d): %s", sc.name, code, out)
			os.RemoveAll(work.root)
			return
		}
		b, _ := os.ReadFile(logf)
		shape, msg := repoShape(work)
		if msg != "" {
			c.Fail("cli-inconsistent", "after an uninterrupted %s: %s", sc.name, msg)
			os.RemoveAll(work.root)
			return
		}
		os.RemoveAll(work.root)
		tpl = &c13template{repo: repo, writes: strings.Count(string(b), "\n"), wantState: shape}
		c13templates[tplBase+si] = tpl
	}
	if k > tpl.writes {
		c.Skip()
	}
	desc := fmt.Sprintf("%s; %d store writes; process killed right before write #%d", sc.name, tpl.writes, k)
	c.Logf("%s", desc)
	work := &cliRepo{root: fmt.Sprintf("%s-k%d", tpl.repo.root, k), wrglDir: filepath.Join(fmt.Sprintf("%s-k%d", tpl.repo.root, k), ".wrgl")}
	os.RemoveAll(work.root)
	if err := copyDir(tpl.repo.root, work.root); err != nil {
		panic(err)
	}
	defer os.RemoveAll(work.root)
	code, out := runSub(work, []string{fmt.Sprintf("VERIF_CRASH_AT=%d", k)}, sc.args(work)...)
	if code != 99 {
		c.Fail("cli-crash-hook", "expected the subprocess to die at write #%d (exit 99), got exit %d: %s; %s", k, code, out, desc)
		return
	}
	if _, msg := repoShape(work); msg != "" {
		c.Fail("cli-inconsistent-after-crash", "%s; %s", msg, desc)
		return
	}
	code, out = runSub(work, nil, sc.args(work)...)
	if code != 0 {
		c.Fail("cli-rerun-error", "re-running the command after the crash failed (exit %d): %s; %s", code, out, desc)
		return
	}
	shape, msg := repoShape(work)
	if msg != "" {
		c.Fail("cli-inconsistent-after-rerun", "%s; %s", msg, desc)
		return
	}
	if shape != tpl.wantState {
		c.Fail("cli-rerun-differs", "after crash + re-run the repository is %s, an uninterrupted run gives %s; %s", shape, tpl.wantState, desc)
		return
	}
	c.Count("crash_or_fault_points", 1)
	c.Outcome("cli-consistent")
	c.Nontrivial(desc)
	if c.WantSample() && k > 3 {
		c.Sample(desc)
	}
}

func init() {
	register(&mc.Check{
		ID:    "C13",
		Level: "fault_enumeration",
		Rule: "library tier: for each of 17 operations (commit of 0/2/300-row tables on a new or existing branch; commit of a 2- or 300-row table that another branch already carries (every object the ingest writes exists and is depended on); receive of 1..2-commit transfers with several packfile size limits followed by the ref update; prune of five histories with unreachable commits (two with a chain of three unreachable commits); two 3-way merge commits) one uninterrupted run on recording stores yields the durable state after EVERY store write (each write is atomic), " +
			"and every such crash state, plus an injected error at every object-store write, is checked: every ref resolves, every stored commit has its parents, every table whose object exists is fully usable (structural oracle), branches point at commits whose table exists; then the same operation is re-run on that state and must succeed and end with exactly the refs (for prune: exactly the objects) of the uninterrupted run (thorough: the re-run is itself interrupted after each of its writes, checked, and re-run). " +
			"cli tier: the real wrgl command path (commit, merge, pull, prune, transaction commit) is run as a subprocess that is killed at the k-th write of the Badger / SQLite stores for every k - before every mutating store method and before every SQL statement inside the ref store's methods (build-time crash hook) - reopened, checked and re-run. evaluations = crash / fault points; distinct by (operation, point)",
		Assumptions: []string{"a crash is process death between two atomic store writes; torn writes, disk full and fsync reordering inside Badger / SQLite are not modelled", "ingest with more than one worker is covered by C16's schedules, not here"},
		Harnesses: []*mc.Harness{
			{Name: "library-crash-states", Body: c13Library, Budget: map[string]time.Duration{"quick": 75 * time.Second, "thorough": 10 * time.Minute}},
			{Name: "cli-killed-subprocess", Body: c13CLI, Budget: map[string]time.Duration{"quick": 90 * time.Second, "thorough": 10 * time.Minute}},
		},
	})
}
