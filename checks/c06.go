package checks

import (
	"bytes"
	"encoding/binary"
	"fmt"
	"reflect"
	"strings"
	"time"

	"github.com/pckhoi/meow"
	"github.com/wrgl/wrgl/pkg/encoding/packfile"
	"github.com/wrgl/wrgl/pkg/objects"

	"verif/mc"
	"verif/model"
	"verif/stores"
)

// C06 — objects round-trip through their encodings and are stored under their hash.

var c06strs = func() []string {
	return []string{"", "a", "a\nb", "\xff", strings.Repeat("x", 65535), strings.Repeat("y", 65536), strings.Repeat("z", 70000)}
}()

func shortStr(s string) string {
	if len(s) > 16 {
		return fmt.Sprintf("<%d bytes>", len(s))
	}
	return fmt.Sprintf("%q", s)
}

func c06Commit(c *mc.Ctx) {
	name := mc.Pick(c, c06strs)
	email := mc.Pick(c, c06strs[:5])
	msg := mc.Pick(c, c06strs)
	np := c.Choose(4)
	tkind := c.Choose(7)
	zone := c.Choose(5)
	c.Shard()
	zones := []*time.Location{time.UTC, time.FixedZone("", 5*3600+1800), time.FixedZone("", -7*3600), time.FixedZone("", 14*3600), time.FixedZone("", 30)}
	secs := []int64{0, 0, 1, 1 << 31, -1, 9999999999, 10000000000}
	var t time.Time
	if tkind > 0 {
		t = time.Unix(secs[tkind], 0).In(zones[zone])
	}
	com := &objects.Commit{Table: bytes.Repeat([]byte{7}, 16), AuthorName: name, AuthorEmail: email, Message: msg, Time: t}
	for i := 0; i < np; i++ {
		com.Parents = append(com.Parents, bytes.Repeat([]byte{byte(0x10 + i)}, 16))
	}
	desc := fmt.Sprintf("commit name=%s email=%s message=%s parents=%d time=%v", shortStr(name), shortStr(email), shortStr(msg), np, t)
	c.Logf("%s", desc)
	tooLong := len(name) > 65535 || len(email) > 65535 || len(msg) > 65535
	buf := bytes.NewBuffer(nil)
	var werr error
	if p, _ := mc.Try(func() { _, werr = com.WriteTo(buf) }); p != nil {
		c.Fail("commit-panic", "Commit.WriteTo panicked: %v; %s", p, desc)
		return
	}
	if tooLong {
		if werr == nil {
			_, back, rerr := objects.ReadCommitFrom(bytes.NewReader(buf.Bytes()))
			c.Fail("commit-long-accepted", "a text field over 65535 bytes was written without error (read-back error: %v, message length read back: %d); %s", rerr, lenMsg(back), desc)
		}
		c.Outcome("refused")
		c.Nontrivial(desc)
		return
	}
	if werr != nil {
		// an instant the 16-byte time field cannot hold may be refused
		if tkind == 6 {
			c.Outcome("time-refused")
			return
		}
		c.Fail("commit-error", "Commit.WriteTo failed: %v; %s", werr, desc)
		return
	}
	enc := append([]byte{}, buf.Bytes()...)
	n, back, err := objects.ReadCommitFrom(bytes.NewReader(enc))
	if err != nil {
		c.Fail("commit-unreadable", "written commit does not read back: %v; %s", err, desc)
		return
	}
	if int(n) != len(enc) {
		c.Fail("commit-roundtrip", "ReadFrom consumed %d of %d bytes; %s", n, len(enc), desc)
	}
	if back.AuthorName != name || back.AuthorEmail != email || back.Message != msg || !bytes.Equal(back.Table, com.Table) || len(back.Parents) != np {
		c.Fail("commit-roundtrip", "commit read back differs (name %s email %s message %s parents %d); %s", shortStr(back.AuthorName), shortStr(back.AuthorEmail), shortStr(back.Message), len(back.Parents), desc)
		return
	}
	for i := range com.Parents {
		if !bytes.Equal(com.Parents[i], back.Parents[i]) {
			c.Fail("commit-roundtrip", "parent %d differs; %s", i, desc)
		}
	}
	// time at the format's resolution: Unix second and zone offset in minutes
	if t.IsZero() != back.Time.IsZero() {
		c.Fail("commit-time", "zero-ness of time changed: wrote %v read %v; %s", t, back.Time, desc)
	} else if !t.IsZero() {
		_, o1 := t.Zone()
		_, o2 := back.Time.Zone()
		if t.Unix() != back.Time.Unix() || o1/60 != o2/60 {
			c.Fail("commit-time", "time wrote %v (unix %d, offset %d) read %v (unix %d, offset %d); %s", t, t.Unix(), o1, back.Time, back.Time.Unix(), o2, desc)
		}
	}
	buf2 := bytes.NewBuffer(nil)
	if _, err := back.WriteTo(buf2); err != nil || !bytes.Equal(buf2.Bytes(), enc) {
		c.Fail("commit-reencode", "re-encoding the commit that was read does not reproduce the stored bytes (err %v); %s", err, desc)
	}
	db := stores.NewMemStore()
	sum, err := objects.SaveCommit(db, enc)
	if err != nil {
		c.Fail("commit-error", "SaveCommit: %v", err)
		return
	}
	if !bytes.Equal(sum, model.Hash(enc)) || !bytes.Equal(db.Raw("com/"+string(sum)), enc) {
		c.Fail("commit-key", "commit not stored under the hash of its bytes; %s", desc)
	}
	objects.SaveCommit(db, enc)
	if db.Len() != 1 {
		c.Fail("commit-key", "saving identical content twice left %d entries; %s", db.Len(), desc)
	}
	got, err := objects.GetCommit(db, sum)
	if err != nil || got.Message != msg || !bytes.Equal(got.Sum, sum) {
		c.Fail("commit-roundtrip", "GetCommit after SaveCommit differs (err %v); %s", err, desc)
	}
	c.Outcome("roundtrip")
	c.Nontrivial(desc)
	if c.WantSample() && np > 0 {
		c.Sample(desc)
	}
}

// every zone offset from -14:00 to +14:00 in one-minute steps, and a few with seconds
func c06Zones(c *mc.Ctx) {
	hours := c.Choose(29) - 14
	c.Shard()
	var bad string
	n := 0
	for m := 0; m < 60; m++ {
		for _, sec := range []int{0, 30} {
			off := hours*3600 + m*60 + sec
			if hours < 0 {
				off = hours*3600 - m*60 - sec
			}
			if off > 14*3600 || off < -14*3600 {
				continue
			}
			for _, unix := range []int64{1, 1700000000, -1} {
				t := time.Unix(unix, 0).In(time.FixedZone("", off))
				com := &objects.Commit{Table: bytes.Repeat([]byte{7}, 16), AuthorName: "n", AuthorEmail: "e", Message: "m", Time: t}
				buf := bytes.NewBuffer(nil)
				if _, err := com.WriteTo(buf); err != nil {
					bad = fmt.Sprintf("offset %ds: WriteTo failed: %v", off, err)
					break
				}
				enc := append([]byte{}, buf.Bytes()...)
				_, back, err := objects.ReadCommitFrom(bytes.NewReader(enc))
				n++
				if err != nil {
					bad = fmt.Sprintf("offset %ds unix %d: does not read back: %v", off, unix, err)
					break
				}
				_, o2 := back.Time.Zone()
				// the format keeps hours and minutes of the offset
				want := off / 60 * 60
				if back.Time.Unix() != unix || o2 != want {
					bad = fmt.Sprintf("time %v (unix %d, offset %ds) read back as %v (unix %d, offset %ds)", t, unix, off, back.Time, back.Time.Unix(), o2)
					break
				}
				buf2 := bytes.NewBuffer(nil)
				back.WriteTo(buf2)
				if !bytes.Equal(buf2.Bytes(), enc) {
					bad = fmt.Sprintf("offset %ds unix %d: re-encoding what was read differs from the stored bytes", off, unix)
					break
				}
			}
		}
	}
	c.Count("zone_roundtrips", int64(n))
	if bad != "" {
		c.Fail("commit-time", "commit time does not round-trip: %s", bad)
	}
	c.Outcome(fmt.Sprintf("hours%+d-ok=%v", hours, bad == ""))
	c.Nontrivial(fmt.Sprintf("hours %d", hours))
	if c.WantSample() {
		c.Sample(fmt.Sprintf("zone offsets %+03d:00..%+03d:59 (minute steps, +30s variants) x 3 instants: %d commit round trips", hours, hours, n))
	}
}

func lenMsg(c *objects.Commit) int {
	if c == nil {
		return -1
	}
	return len(c.Message)
}

func c06Table(c *mc.Ctx) {
	colAlphabet := []string{"", "a", "bb", strings.Repeat("c", 65535), strings.Repeat("d", 65536)}
	ncols := c.Choose(4)
	cols := make([]string, ncols)
	for i := range cols {
		cols[i] = mc.Pick(c, colAlphabet)
	}
	var pk []uint32
	if ncols > 0 {
		pks := orderedPKs[ifInt(ncols > 3, 3, ncols)]
		for _, p := range pks[c.Choose(len(pks))] {
			pk = append(pk, uint32(p))
		}
	}
	nbIdx := c.Choose(9)
	nblocks := []int{0, 1, 2, 3, 255, 256, 4096, 4097, 8193}[nbIdx]
	last := 1 + c.Choose(3) // rows in the last block: 1, 128, 255
	if nbIdx >= 4 && (ncols != 1 || last != 1) {
		c.Skip() // long block lists: one column layout is enough
	}
	c.Shard()
	rowsCount := 0
	if nblocks > 0 {
		rowsCount = (nblocks-1)*255 + []int{1, 128, 255}[last-1]
	}
	tbl := objects.NewTable(cols, pk)
	tbl.RowsCount = uint32(rowsCount)
	for i := 0; i < nblocks; i++ {
		bs := bytes.Repeat([]byte{byte(i + 1)}, 16)
		is := bytes.Repeat([]byte{byte(0x80 + i)}, 16)
		binary.BigEndian.PutUint32(bs[4:], uint32(i)) // distinct sums for long lists too
		binary.BigEndian.PutUint32(is[4:], uint32(i))
		tbl.Blocks = append(tbl.Blocks, bs)
		tbl.BlockIndices = append(tbl.BlockIndices, is)
	}
	var cs []string
	tooLong := false
	for _, s := range cols {
		cs = append(cs, shortStr(s))
		if len(s) > 65535 {
			tooLong = true
		}
	}
	desc := fmt.Sprintf("table columns=%v pk=%v rows=%d blocks=%d", cs, pk, rowsCount, nblocks)
	c.Logf("%s", desc)
	buf := bytes.NewBuffer(nil)
	var werr error
	if p, _ := mc.Try(func() { _, werr = tbl.WriteTo(buf) }); p != nil {
		c.Fail("table-panic", "Table.WriteTo panicked: %v; %s", p, desc)
		return
	}
	if tooLong {
		if werr == nil {
			c.Fail("table-long-accepted", "a column name over 65535 bytes was written without error; %s", desc)
		}
		c.Outcome("refused")
		c.Nontrivial(desc)
		return
	}
	if werr != nil {
		c.Fail("table-error", "Table.WriteTo failed: %v; %s", werr, desc)
		return
	}
	enc := append([]byte{}, buf.Bytes()...)
	n, back, err := objects.ReadTableFrom(bytes.NewReader(enc))
	if err != nil {
		c.Fail("table-unreadable", "written table does not read back: %v; %s", err, desc)
		return
	}
	if int(n) != len(enc) {
		c.Fail("table-roundtrip", "ReadFrom consumed %d of %d bytes; %s", n, len(enc), desc)
	}
	if fmt.Sprintf("%q", back.Columns) != fmt.Sprintf("%q", cols) || fmt.Sprint(back.PK) != fmt.Sprint(pk) || back.RowsCount != tbl.RowsCount ||
		!reflect.DeepEqual(back.Blocks, tbl.Blocks) && nblocks > 0 || !reflect.DeepEqual(back.BlockIndices, tbl.BlockIndices) && nblocks > 0 {
		c.Fail("table-roundtrip", "table read back differs: pk=%v rows=%d blocks=%d; %s", back.PK, back.RowsCount, len(back.Blocks), desc)
		return
	}
	buf2 := bytes.NewBuffer(nil)
	if _, err := back.WriteTo(buf2); err != nil || !bytes.Equal(buf2.Bytes(), enc) {
		c.Fail("table-reencode", "re-encoding the table that was read does not reproduce the stored bytes; %s", desc)
	}
	db := stores.NewMemStore()
	sum, err := objects.SaveTable(db, enc)
	if err != nil || !bytes.Equal(sum, model.Hash(enc)) || !bytes.Equal(db.Raw("tbl/"+string(sum)), enc) {
		c.Fail("table-key", "table not stored under the hash of its bytes (err %v); %s", err, desc)
	}
	objects.SaveTable(db, enc)
	if db.Len() != 1 {
		c.Fail("table-key", "saving identical content twice left %d entries; %s", db.Len(), desc)
	}
	got, err := objects.GetTable(db, sum)
	if err != nil || got.RowsCount != tbl.RowsCount || !bytes.Equal(got.Sum, sum) {
		c.Fail("table-roundtrip", "GetTable after SaveTable differs (err %v); %s", err, desc)
	}
	c.Outcome("roundtrip")
	c.Nontrivial(desc)
	if c.WantSample() && nblocks > 1 {
		c.Sample(desc)
	}
}

var c06cells = []string{"", "a", `"`, "a\nb", ",", "\xff\xfe", strings.Repeat("L", 65535)}

func c06Block(c *mc.Ctx) {
	nrows := []int{1, 2, 3, 254, 255}[c.Choose(5)]
	ncols := 1 + c.Choose(3)
	special := mc.Pick(c, append(append([]string{}, c06cells...), strings.Repeat("O", 65536), strings.Repeat("P", 70000)))
	sr, sc := c.Choose(ifInt(nrows > 3, 3, nrows)), c.Choose(ncols)
	crossing := c.Choose(2) == 1 && ncols == 3
	pkOpts := orderedPKs[ncols]
	pkSel := pkOpts[c.Choose(len(pkOpts))]
	c.Shard()
	rows := make([][]string, nrows)
	for i := range rows {
		rows[i] = make([]string, ncols)
		for j := range rows[i] {
			rows[i][j] = fmt.Sprintf("r%04dc%d", i, j)
		}
	}
	if nrows > 3 && sr == 2 {
		sr = nrows - 1
	}
	rows[sr][sc] = special
	if crossing {
		big := strings.Repeat("M", 40000)
		rows[0] = []string{"k", big, big}
		rows[0][sc] = "tail"
	}
	var pk []uint32
	for _, p := range pkSel {
		pk = append(pk, uint32(p))
	}
	desc := fmt.Sprintf("block rows=%d cols=%d cell(%d,%d)=%s crossing64K=%v pk=%v", nrows, ncols, sr, sc, shortStr(special), crossing, pk)
	c.Logf("%s", desc)
	tooLong := len(special) > 65535 && !(crossing && sr == 0)
	enc := objects.NewStrListEncoder(true)
	buf := bytes.NewBuffer(nil)
	var werr error
	if p, _ := mc.Try(func() { _, werr = objects.WriteBlockTo(enc, buf, rows) }); p != nil {
		c.Fail("block-panic", "WriteBlockTo panicked: %v; %s", p, desc)
		return
	}
	if tooLong {
		if werr == nil {
			c.Fail("block-long-accepted", "a cell over 65535 bytes was written without error; %s", desc)
		}
		c.Outcome("refused")
		c.Nontrivial(desc)
		return
	}
	if werr != nil {
		c.Fail("block-error", "WriteBlockTo failed: %v; %s", werr, desc)
		return
	}
	content := append([]byte{}, buf.Bytes()...)
	if !bytes.Equal(content, model.EncodeBlock(rows)) {
		c.Fail("block-encoding", "block bytes differ from the independent encoding; %s", desc)
		return
	}
	n, back, err := objects.ReadBlockFrom(bytes.NewReader(content))
	if err != nil || int(n) != len(content) || fmt.Sprintf("%q", back) != fmt.Sprintf("%q", rows) {
		c.Fail("block-roundtrip", "block does not read back equal (err %v, consumed %d of %d); %s", err, n, len(content), desc)
		return
	}
	if err := objects.ValidateBlockBytes(content); err != nil {
		c.Fail("block-roundtrip", "ValidateBlockBytes rejects a block the encoder produced: %v; %s", err, desc)
	}
	db := stores.NewMemStore()
	sum, _, err := objects.SaveBlock(db, nil, content)
	if err != nil || !bytes.Equal(sum, model.Hash(content)) {
		c.Fail("block-key", "block not stored under the hash of its content (err %v); %s", err, desc)
		return
	}
	objects.SaveBlock(db, nil, content)
	if db.Len() != 1 {
		c.Fail("block-key", "saving identical content twice left %d entries; %s", db.Len(), desc)
	}
	got, _, err := objects.GetBlock(db, nil, sum)
	if err != nil || fmt.Sprintf("%q", got) != fmt.Sprintf("%q", rows) {
		c.Fail("block-roundtrip", "GetBlock after SaveBlock differs (err %v); %s", err, desc)
	}
	// the two ways of building the block index coincide and round-trip
	idx1, err1 := objects.IndexBlock(objects.NewStrListEncoder(true), meow.New(0), rows, pk)
	idx2, err2 := objects.IndexBlockFromBytes(objects.NewStrListDecoder(true), meow.New(0), objects.NewStrListEditor(pk), content, pk)
	if err1 != nil || err2 != nil {
		c.Fail("index-error", "IndexBlock: %v, IndexBlockFromBytes: %v; %s", err1, err2, desc)
		return
	}
	b1, b2 := bytes.NewBuffer(nil), bytes.NewBuffer(nil)
	idx1.WriteTo(b1)
	idx2.WriteTo(b2)
	if !bytes.Equal(b1.Bytes(), b2.Bytes()) {
		c.Fail("index-differ", "IndexBlock and IndexBlockFromBytes give different indices; %s", desc)
	}
	in, iback, err := objects.ReadBlockIndex(bytes.NewReader(b1.Bytes()))
	if err != nil || int(in) != b1.Len() {
		c.Fail("index-roundtrip", "block index does not read back (err %v, %d of %d bytes); %s", err, in, b1.Len(), desc)
	} else {
		b3 := bytes.NewBuffer(nil)
		iback.WriteTo(b3)
		if !bytes.Equal(b3.Bytes(), b1.Bytes()) {
			c.Fail("index-roundtrip", "re-encoding the block index that was read differs; %s", desc)
		}
	}
	isum, _, err := objects.SaveBlockIndex(db, nil, b1.Bytes())
	if err != nil || !bytes.Equal(isum, model.Hash(b1.Bytes())) {
		c.Fail("index-key", "block index not stored under the hash of its bytes; %s", desc)
	}
	c.Outcome("roundtrip")
	c.Nontrivial(desc)
	if c.WantSample() && crossing {
		c.Sample(desc)
	}
}

// profiles: every subset of optional fields present, plus profiles the real profiler produced
func c06Profile(c *mc.Ctx) {
	mask := c.Choose(1 << 9)
	ncols := 1 + c.Choose(2)
	c.Shard()
	f := func(v float64) *float64 { return &v }
	tp := &objects.TableProfile{Version: 1, RowsCount: 12}
	for ci := 0; ci < ncols; ci++ {
		col := &objects.ColumnProfile{}
		if mask&1 != 0 {
			col.Name = []string{"a", "\xff\n"}[ci%2]
		}
		if mask&2 != 0 {
			col.NACount = 3
		}
		if mask&4 != 0 {
			col.Min, col.Max = f(-1.5), f(0)
		}
		if mask&8 != 0 {
			col.Mean, col.Median, col.StdDeviation = f(2), f(0), f(1e300)
		}
		if mask&16 != 0 {
			col.Percentiles = []float64{1 + float64(4*ci), 2 + float64(4*ci), 3 + float64(4*ci)} // different per column
		}
		if mask&32 != 0 {
			col.MinStrLen, col.MaxStrLen = 1, 65535
		}
		if mask&64 != 0 {
			col.AvgStrLen = 9
		}
		if mask&128 != 0 {
			col.TopValues = objects.ValueCounts{{Value: "x", Count: 2}, {Value: "", Count: 1}}
		}
		if mask&256 != 0 && ci == 1 {
			col = &objects.ColumnProfile{} // an entirely empty column profile
		}
		tp.Columns = append(tp.Columns, col)
	}
	desc := fmt.Sprintf("profile fieldmask=%09b cols=%d", mask, ncols)
	c.Logf("%s", desc)
	buf := bytes.NewBuffer(nil)
	if _, err := tp.WriteTo(buf); err != nil {
		c.Fail("profile-error", "TableProfile.WriteTo: %v; %s", err, desc)
		return
	}
	enc := append([]byte{}, buf.Bytes()...)
	back := &objects.TableProfile{}
	n, err := back.ReadFrom(bytes.NewReader(enc))
	if err != nil || int(n) != len(enc) {
		c.Fail("profile-roundtrip", "profile does not read back (err %v, %d of %d bytes); %s", err, n, len(enc), desc)
		return
	}
	// decoding another profile afterwards must not disturb the one already decoded
	other := &objects.TableProfile{Version: 1, RowsCount: 3, Columns: []*objects.ColumnProfile{{Name: "z", Percentiles: []float64{9, 8, 7, 6}, TopValues: objects.ValueCounts{{Value: "o", Count: 5}}}}}
	ob2 := bytes.NewBuffer(nil)
	other.WriteTo(ob2)
	if _, err := (&objects.TableProfile{}).ReadFrom(bytes.NewReader(ob2.Bytes())); err != nil {
		c.Fail("profile-error", "decoding a second profile failed: %v", err)
		return
	}
	if !reflect.DeepEqual(tp, back) {
		c.Fail("profile-roundtrip", "profile read back differs from what was written (after a second profile was decoded); %s", desc)
	}
	buf2 := bytes.NewBuffer(nil)
	back.WriteTo(buf2)
	if !bytes.Equal(buf2.Bytes(), enc) {
		c.Fail("profile-reencode", "re-encoding the profile that was read differs; %s", desc)
	}
	db := stores.NewMemStore()
	tsum := bytes.Repeat([]byte{9}, 16)
	// a profile (like a table index) is stored under its TABLE's sum, not its own hash: writing one
	// for a table that already has another (wrgl profile --refresh) must replace it
	older := &objects.TableProfile{Version: 1, RowsCount: 7, Columns: []*objects.ColumnProfile{{Name: "older"}}}
	ob := bytes.NewBuffer(nil)
	older.WriteTo(ob)
	if err := objects.SaveTableProfile(db, tsum, ob.Bytes()); err != nil {
		c.Fail("profile-error", "SaveTableProfile: %v", err)
	}
	if err := objects.SaveTableProfile(db, tsum, enc); err != nil {
		c.Fail("profile-error", "SaveTableProfile: %v", err)
	}
	got, err := objects.GetTableProfile(db, tsum)
	if err != nil || !reflect.DeepEqual(got, tp) {
		c.Fail("profile-roundtrip", "GetTableProfile after writing the profile over an older one differs from what was written (err %v); %s", err, desc)
	}
	// same for the table index: first keys of the blocks, rewritten for the same table
	idx1 := [][]string{{"a"}, {"m"}}
	idx2 := [][]string{{"b", fmt.Sprint(mask)}, {"n", ""}}
	for _, idx := range [][][]string{idx1, idx2} {
		ib := bytes.NewBuffer(nil)
		if _, err := objects.WriteBlockTo(objects.NewStrListEncoder(true), ib, idx); err != nil {
			c.Fail("tblidx-error", "WriteBlockTo(table index): %v", err)
			return
		}
		if err := objects.SaveTableIndex(db, tsum, ib.Bytes()); err != nil {
			c.Fail("tblidx-error", "SaveTableIndex: %v", err)
			return
		}
		gi, err := objects.GetTableIndex(db, tsum)
		if err != nil || !reflect.DeepEqual(gi, idx) {
			c.Fail("tblidx-roundtrip", "GetTableIndex returns %q (err %v) after %q was written for the table; %s", gi, err, idx, desc)
			return
		}
	}
	c.Outcome("roundtrip")
	c.Nontrivial(desc)
	if c.WantSample() && mask == 255 {
		c.Sample(desc)
	}
}

// string lists and uint lists on their own
func c06Lists(c *mc.Ctx) {
	n := c.Choose(4)
	sl := make([]string, n)
	for i := range sl {
		sl[i] = mc.Pick(c, c06cells)
	}
	reuse := c.Choose(2) == 1
	c.Shard()
	var ss []string
	for _, s := range sl {
		ss = append(ss, shortStr(s))
	}
	desc := fmt.Sprintf("strlist %v reuse=%v", ss, reuse)
	c.Logf("%s", desc)
	b := append([]byte{}, objects.NewStrListEncoder(reuse).Encode(sl)...)
	if !bytes.Equal(b, model.EncodeStrList(sl)) {
		c.Fail("strlist-encoding", "Encode differs from the independent encoding; %s", desc)
		return
	}
	d := objects.NewStrListDecoder(reuse)
	if got := d.Decode(b); fmt.Sprintf("%q", got) != fmt.Sprintf("%q", sl) {
		c.Fail("strlist-roundtrip", "Decode(Encode(x)) != x; %s", desc)
	}
	nn, got, err := d.Read(bytes.NewReader(b))
	if err != nil || int(nn) != len(b) || fmt.Sprintf("%q", got) != fmt.Sprintf("%q", sl) {
		c.Fail("strlist-roundtrip", "Read(Encode(x)) != x (err %v, %d of %d bytes); %s", err, nn, len(b), desc)
	}
	n2, raw, err := d.ReadBytes(bytes.NewReader(b))
	if err != nil || n2 != len(b) || !bytes.Equal(raw, b) {
		c.Fail("strlist-roundtrip", "ReadBytes(Encode(x)) != bytes (err %v); %s", err, desc)
	}
	if m, err := objects.ValidateStrListBytes(b); err != nil || m != len(b) {
		c.Fail("strlist-roundtrip", "ValidateStrListBytes rejects / mis-sizes an encoder output (err %v, %d of %d); %s", err, m, len(b), desc)
	}
	// uint list
	us := make([]uint32, n)
	for i := range us {
		us[i] = []uint32{0, 1, 255, 1<<32 - 1}[(i+len(sl[i]))%4]
	}
	ub := append([]byte{}, objects.NewUintListEncoder().Encode(us)...)
	un, ugot, err := objects.NewUintListDecoder(reuse).Read(bytes.NewReader(ub))
	if err != nil || int(un) != len(ub) || fmt.Sprint(ugot) != fmt.Sprint(us) {
		c.Fail("uintlist-roundtrip", "uint list %v does not read back (err %v, got %v); %s", us, err, ugot, desc)
	}
	c.Outcome("roundtrip")
	if n >= 2 {
		c.Nontrivial(desc)
	}
	if c.WantSample() && n == 3 {
		c.Sample(desc)
	}
}

// packfile object header: type and length round-trip, consuming exactly the encoded bytes
func c06Header(c *mc.Ctx) {
	needRewrite("export:packfile-header")
	thorough := c.Thorough()
	nshards := 256
	sh := c.Choose(nshards)
	c.Shard()
	var checked int64
	var fail string
	check := func(typ int, u uint64) {
		if fail != "" {
			return
		}
		checked++
		hdr := packfile.VerifEncodeHeader(typ, u)
		r := bytes.NewReader(append(append([]byte{}, hdr...), 0xAB))
		t2, u2, err := packfile.VerifDecodeHeader(r)
		if err != nil || t2 != typ || u2 != u || r.Len() != 1 {
			fail = fmt.Sprintf("type %d length %d: encoded % x decodes to type %d length %d (err %v, %d unread bytes, want 1)", typ, u, hdr, t2, u2, err, r.Len())
		}
	}
	if thorough {
		// every 32-bit length for type 1, split into 256 shards
		lo := uint64(sh) << 24
		hi := lo + 1<<24
		for u := lo; u < hi; u++ {
			if u == 0 {
				continue
			}
			check(1, u)
		}
		if hi == 1<<32 {
			check(1, 1<<32)
		}
	} else {
		lo := uint64(sh) << 18 // 1 .. 2^26
		for u := lo; u < lo+1<<18; u++ {
			if u == 0 {
				continue
			}
			check(1, u)
		}
	}
	// all types on structured windows: 2^k + d, |d| <= 1024, k <= 63 (dealt over shards by k)
	for k := sh % 64; k < 64; k += 64 {
		for d := int64(-1024); d <= 1024; d++ {
			base := uint64(1) << uint(k)
			u := base + uint64(d)
			if d < 0 {
				u = base - uint64(-d)
				if uint64(-d) >= base {
					continue
				}
			}
			if u == 0 {
				continue
			}
			if sh/64 == 0 {
				check(1, u)
			} else if sh/64 == 1 {
				check(2, u)
			} else if sh/64 == 2 {
				check(3, u)
			}
		}
	}
	c.Count("header_pairs", checked)
	if fail != "" {
		c.Fail("header", "packfile header does not round-trip: %s", fail)
	}
	c.Outcome(fmt.Sprintf("shard-ok=%v", fail == ""))
	c.Nontrivial(fmt.Sprintf("shard %d", sh))
	if c.WantSample() {
		c.Sample(fmt.Sprintf("shard %d of %d: %d (type,length) pairs encoded and decoded", sh, nshards, checked))
	}
}

// c06Batched: several different objects of one kind saved back to back through a store that, like a Badger
// transaction and the repository's own objbadger.Txn, retains the key and value slices until it commits. Every
// object must afterwards be found under the hash of its own bytes - identical content once, different content
// under different keys - whatever buffers the save path reuses.
func c06Batched(c *mc.Ctx) {
	kind := c.Choose(6)
	n := 2 + c.Choose(2)
	withBuf := c.Choose(2) == 1 // block / block-index saves: hand the returned scratch buffer to the next save
	c.Shard()
	names := []string{"commit", "table", "block", "block index", "table index", "table profile"}
	desc := fmt.Sprintf("%d different %s objects saved back to back through a key-retaining batch store (scratch buffer reused: %v)", n, names[kind], withBuf)
	c.Logf("%s", desc)
	db := stores.NewBatchStore()
	want := map[string][]byte{} // key -> decodable identity
	var bb []byte
	for i := 0; i < n; i++ {
		var sum []byte
		var err error
		switch kind {
		case 0:
			enc := seedCommit(i)
			sum, err = objects.SaveCommit(db, enc)
			want["com/"+string(model.Hash(enc))] = enc
		case 1:
			enc := seedTable(i + 1)
			sum, err = objects.SaveTable(db, enc)
			want["tbl/"+string(model.Hash(enc))] = enc
		case 2:
			enc := seedBlock(i)
			var b2 []byte
			sum, b2, err = objects.SaveBlock(db, bb, enc)
			if withBuf {
				bb = b2
			}
			want["blk/"+string(model.Hash(enc))] = nil
		case 3:
			enc := seedBlockIndex(i)
			var b2 []byte
			sum, b2, err = objects.SaveBlockIndex(db, bb, enc)
			if withBuf {
				bb = b2
			}
			want["blkidx/"+string(model.Hash(enc))] = nil
		case 4:
			sum = bytes.Repeat([]byte{byte(0x31 + i)}, 16)
			enc := seedBlock(i)
			err = objects.SaveTableIndex(db, sum, enc)
			want["tblidx/"+string(sum)] = nil
		case 5:
			sum = bytes.Repeat([]byte{byte(0x41 + i)}, 16)
			enc := seedProfile(i % 2)
			err = objects.SaveTableProfile(db, sum, enc)
			want["tblsum/"+string(sum)] = enc
		}
		if err != nil {
			c.Fail("batched-save", "save #%d returned %v; %s", i, err, desc)
			return
		}
		_ = sum
	}
	if err := db.Commit(); err != nil {
		panic(err)
	}
	keys := db.Inner.Keys()
	if len(keys) != len(want) {
		c.Fail("batched-save", "%d objects with different content were saved, the store holds %d keys %q; %s", len(want), len(keys), keys, desc)
		return
	}
	for k, enc := range want {
		raw := db.Inner.Raw(k)
		if raw == nil {
			c.Fail("batched-save", "no entry under %q (prefix + hash of the object's own bytes); keys are %q; %s", k, keys, desc)
			return
		}
		if enc != nil && !bytes.Equal(raw, enc) {
			c.Fail("batched-save", "the entry under %q does not hold that object's bytes; %s", k, desc)
			return
		}
	}
	c.Outcome("batched-" + names[kind])
	c.Nontrivial(desc)
	if c.WantSample() && kind == 0 {
		c.Sample(desc)
	}
}

func init() {
	register(&mc.Check{
		ID:    "C06",
		Level: "exploration",
		Rule: "commits: author name/message in {'',a,a\\nb,\\xff,65535,65536,70000 bytes} x email x 0..3 parents x time {zero,0,1,2^31,-1,9999999999,10^10} x zone {UTC,+05:30,-07:00,+14:00,+00:00:30}; commit time zones: every offset -14:00..+14:00 in one-minute steps (and +30 s) x 3 instants; tables: 0..3 column names from {'',a,bb,65535,65536 bytes} x every key x {0,1,2,3,255,256,4096,4097,8193} blocks x last-block fill; " +
			"blocks: 1,2,3,254,255 rows x 1..3 columns x one special cell (quotes, newline, delimiter, non-UTF8, 65535/65536/70000 bytes) at every position x rows crossing 64 KiB x key; block index built both ways; table profiles with every subset of optional fields; string/uint lists of 0..3 elements; " +
			"packfile header: every length 1..2^26 (thorough: every 32-bit length) for type 1 and 2^k+-1024 windows up to 2^63 for types 1..3. Each object is written, read back, compared, re-encoded (bytes must coincide), saved (key = prefix + hash of bytes, saving twice leaves one entry) and fetched; over-limit text must be refused by the writer with an error. " +
			"non-trivial = a completed round trip or refusal; distinct by case description. Plus (batched-saves) 2..3 different objects of each kind saved back to back through a store that retains key and value slices until it commits (as a Badger transaction and objbadger.Txn do): each must be found under the hash of its own bytes",
		Assumptions: []string{"commit time is compared at the format's resolution (Unix second, zone offset in minutes); an instant the 16-byte field cannot hold (>= 10^10 s) may be refused or round-trip", "object length 0 is excluded from the header family (no object is empty)", "field lengths are explored at the 16-bit boundaries only"},
		Harnesses: []*mc.Harness{
			{Name: "commit", Body: c06Commit, Budget: map[string]time.Duration{"quick": 40 * time.Second, "thorough": 5 * time.Minute}},
			{Name: "commit-zones", Body: c06Zones, Budget: map[string]time.Duration{"quick": 30 * time.Second, "thorough": 3 * time.Minute}},
			{Name: "table", Body: c06Table, Budget: map[string]time.Duration{"quick": 40 * time.Second, "thorough": 5 * time.Minute}},
			{Name: "block-and-index", Body: c06Block, Budget: map[string]time.Duration{"quick": 40 * time.Second, "thorough": 5 * time.Minute}},
			{Name: "profile", Body: c06Profile, Budget: map[string]time.Duration{"quick": 30 * time.Second, "thorough": 3 * time.Minute}},
			{Name: "batched-saves", Body: c06Batched, Budget: map[string]time.Duration{"quick": 30 * time.Second, "thorough": 3 * time.Minute}},
			{Name: "lists", Body: c06Lists, Budget: map[string]time.Duration{"quick": 30 * time.Second, "thorough": 3 * time.Minute}},
			{Name: "packfile-header", Body: c06Header, Budget: map[string]time.Duration{"quick": 40 * time.Second, "thorough": 12 * time.Minute}},
		},
	})
}
