package checks

import (
	"bytes"
	"fmt"
	"time"

	"github.com/wrgl/wrgl/pkg/objects"

	"verif/model"
)

var baseTime = time.Date(2022, 3, 4, 5, 6, 7, 0, time.UTC)

// buildCommits stores one commit per node of g (parents first). times[i] is the commit time
// of node i in seconds after a fixed base; tables[i] (optional) is the table sum.
func buildCommits(db objects.Store, g *model.Graph, times []int, tables [][]byte) ([][]byte, error) {
	sums := make([][]byte, g.N())
	for i := 0; i < g.N(); i++ {
		c := &objects.Commit{
			AuthorName:  "a",
			AuthorEmail: "a@b",
			Message:     fmt.Sprintf("node %d", i),
			Time:        baseTime.Add(time.Duration(times[i]) * time.Second),
		}
		if tables != nil && tables[i] != nil {
			c.Table = tables[i]
		} else {
			c.Table = bytes.Repeat([]byte{byte(i + 1)}, 16)
		}
		for _, p := range g.Parents[i] {
			c.Parents = append(c.Parents, sums[p])
		}
		buf := bytes.NewBuffer(nil)
		if _, err := c.WriteTo(buf); err != nil {
			return nil, err
		}
		s, err := objects.SaveCommit(db, buf.Bytes())
		if err != nil {
			return nil, err
		}
		sums[i] = s
	}
	return sums, nil
}

// timeAssignments returns the timestamp vectors explored for n nodes: every permutation of
// n distinct times (topological first), all equal, and pairwise equal.
func timeAssignments(n int, allPerms bool) [][]int {
	var out [][]int
	if allPerms {
		out = append(out, model.Perms(n)...)
	} else {
		asc := make([]int, n)
		desc := make([]int, n)
		for i := range asc {
			asc[i] = i
			desc[i] = n - 1 - i
		}
		out = append(out, asc, desc)
	}
	eq := make([]int, n)
	pair := make([]int, n)
	for i := range pair {
		pair[i] = i / 2
	}
	out = append(out, eq, pair)
	return out
}

func indexOfSum(sums [][]byte, s []byte) int {
	for i, x := range sums {
		if bytes.Equal(x, s) {
			return i
		}
	}
	return -1
}
