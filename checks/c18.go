package checks

import (
	"bytes"
	"fmt"
	"io"
	"sort"
	"strings"
	"time"

	"github.com/pckhoi/meow"
	"github.com/wrgl/wrgl/pkg/encoding/packfile"

	"verif/mc"
)

// C18 — decoding a stream does not depend on how the transport chunks it.

// chunkReader delivers data in successive reads that never cross a cut point. With
// eofWithData the final bytes are returned together with io.EOF.
type chunkReader struct {
	data        []byte
	cuts        []int // ascending positions in (0,len)
	uniform     int   // if > 0: chunks of this size instead of cuts
	eofWithData bool
	pos         int
	Reads       int
}

func (r *chunkReader) Read(p []byte) (int, error) {
	r.Reads++
	if r.pos >= len(r.data) {
		return 0, io.EOF
	}
	if len(p) == 0 {
		return 0, nil
	}
	end := len(r.data)
	if r.uniform > 0 {
		e := (r.pos/r.uniform + 1) * r.uniform
		if e < end {
			end = e
		}
	} else {
		for _, c := range r.cuts {
			if c > r.pos {
				if c < end {
					end = c
				}
				break
			}
		}
	}
	n := end - r.pos
	if n > len(p) {
		n = len(p)
	}
	copy(p, r.data[r.pos:r.pos+n])
	r.pos += n
	if r.pos == len(r.data) && r.eofWithData {
		return n, io.EOF
	}
	return n, nil
}

func c18Body(c *mc.Ctx) {
	seeds := seedStreams()
	s := seeds[c.Choose(len(seeds))]
	mode := c.Choose(3) // 0: cut points, 1: uniform chunks, 2: three cut points on short streams (thorough)
	c.Shard()
	want, werr := s.dec.decode(bytes.NewReader(s.data))
	if werr != nil {
		panic(fmt.Sprintf("mc: seed stream %s does not decode from a whole buffer: %v", s.name, werr))
	}
	n := len(s.data)
	var tried int64
	failed := false
	try := func(r *chunkReader, how string) {
		if failed {
			return
		}
		tried++
		var got string
		var err error
		if p, st := mc.Try(func() { got, err = s.dec.decode(r) }); p != nil {
			c.Fail("panic", "%s on stream %s (%d bytes) delivered %s panicked: %v\n%s", s.dec.name, s.name, n, how, p, firstLinesOf(st, 8))
			failed = true
			return
		}
		if err != nil || got != want {
			c.Fail("chunk-dependent", "%s on stream %s (%d bytes) delivered %s: err=%v decoded %.200s; whole-buffer read decodes %.200s", s.dec.name, s.name, n, how, err, got, want)
			failed = true
		}
	}
	for _, eof := range []bool{false, true} {
		switch mode {
		case 0:
			try(&chunkReader{data: s.data, eofWithData: eof}, fmt.Sprintf("in one read (eofWithData=%v)", eof))
			for a := 1; a < n; a++ {
				try(&chunkReader{data: s.data, cuts: []int{a}, eofWithData: eof}, fmt.Sprintf("cut at %d (eofWithData=%v)", a, eof))
			}
			if n <= 400 || c.Thorough() {
				for a := 1; a < n; a++ {
					for b := a + 1; b < n; b++ {
						try(&chunkReader{data: s.data, cuts: []int{a, b}, eofWithData: eof}, fmt.Sprintf("cut at %d,%d (eofWithData=%v)", a, b, eof))
					}
				}
			}
		case 1:
			for u := 1; u <= 8; u++ {
				try(&chunkReader{data: s.data, uniform: u, eofWithData: eof}, fmt.Sprintf("in %d-byte chunks (eofWithData=%v)", u, eof))
			}
		case 2:
			// three cut points: streams up to 64 bytes (thorough: up to 160 bytes)
			if n > 160 || (!c.Thorough() && n > 64) {
				continue
			}
			for a := 1; a < n; a++ {
				for b := a + 1; b < n; b++ {
					for d := b + 1; d < n; d++ {
						try(&chunkReader{data: s.data, cuts: []int{a, b, d}, eofWithData: eof}, fmt.Sprintf("cut at %d,%d,%d (eofWithData=%v)", a, b, d, eof))
					}
				}
			}
		}
	}
	c.Count("deliveries", tried)
	c.Outcome(fmt.Sprintf("%s-ok=%v", s.dec.name, !failed))
	if tried > 0 {
		c.Nontrivial(fmt.Sprintf("%s/%d", s.name, mode))
	}
	if c.WantSample() && mode == 0 {
		c.Sample(map[string]any{"stream": s.name, "bytes": n, "decoder": s.dec.name, "deliveries_tried": tried})
	}
}

// large objects: a packfile of three objects, one of them around or above 1 MiB (where a reader that
// sizes its buffer from the declared length changes strategy), delivered whole, in large uniform
// chunks, and with one and two cut points drawn from the interesting positions (object boundaries and
// header edges +-1, the 1 MiB marks +-1): the same objects and the same end of stream must come out.
// c18Long: streams with long single fields. Every single cut point for streams up to 8 KiB, and uniform
// delivery in chunks of 1..8, 99..101, 512 and 4096 bytes for all of them (a 64 KiB field then arrives in
// 65 535 reads); the final bytes with EOF or EOF on its own.
func c18Long(c *mc.Ctx) {
	seeds := longFieldStreams()
	s := seeds[c.Choose(len(seeds))]
	mode := c.Choose(2)
	c.Shard()
	want, werr := s.dec.decode(bytes.NewReader(s.data))
	if werr != nil {
		panic(fmt.Sprintf("mc: long-field stream %s does not decode from a whole buffer: %v", s.name, werr))
	}
	n := len(s.data)
	var tried int64
	failed := false
	try := func(r *chunkReader, how string) {
		if failed {
			return
		}
		tried++
		var got string
		var err error
		if p, st := mc.Try(func() { got, err = s.dec.decode(r) }); p != nil {
			c.Fail("panic", "%s on stream %s (%d bytes) delivered %s panicked: %v\n%s", s.dec.name, s.name, n, how, p, firstLinesOf(st, 8))
			failed = true
			return
		}
		if err != nil || got != want {
			c.Fail("chunk-dependent", "%s on stream %s (%d bytes) delivered %s: err=%v decoded %.120s; whole-buffer read decodes %.120s", s.dec.name, s.name, n, how, err, got, want)
			failed = true
		}
	}
	for _, eof := range []bool{false, true} {
		if mode == 0 {
			for _, u := range []int{1, 2, 3, 4, 5, 6, 7, 8, 99, 100, 101, 512, 4096} {
				try(&chunkReader{data: s.data, uniform: u, eofWithData: eof}, fmt.Sprintf("in %d-byte chunks (eofWithData=%v)", u, eof))
			}
		} else if n <= 8192 {
			for a := 1; a < n; a++ {
				try(&chunkReader{data: s.data, cuts: []int{a}, eofWithData: eof}, fmt.Sprintf("cut at %d (eofWithData=%v)", a, eof))
			}
		}
	}
	c.Count("deliveries", tried)
	c.Outcome(fmt.Sprintf("%s-ok=%v", s.dec.name, !failed))
	if tried > 0 {
		c.Nontrivial(fmt.Sprintf("%s/%d", s.name, mode))
	}
	if c.WantSample() && mode == 0 {
		c.Sample(map[string]any{"stream": s.name, "bytes": n, "decoder": s.dec.name, "deliveries_tried": tried})
	}
}

func c18Large(c *mc.Ctx) {
	big := []int{1<<20 - 1, 1 << 20, 1<<20 + 1, 2<<20 + 77}[c.Choose(4)]
	pos := c.Choose(3) // where the large object sits among the three
	c.Shard()
	mk := func(n int, seed byte) []byte {
		b := make([]byte, n)
		for i := range b {
			b[i] = byte(i*7+i/251) ^ seed
		}
		return b
	}
	objs := [][]byte{mk(40, 1), mk(300, 2), mk(9, 3)}
	objs[pos] = mk(big, 4)
	types := []int{packfile.ObjectCommit, packfile.ObjectBlock, packfile.ObjectTable}
	var buf bytes.Buffer
	pw, err := packfile.NewPackfileWriter(&buf)
	if err != nil {
		panic(err)
	}
	marks := map[int]bool{1: true, 4: true, 7: true, 8: true, 9: true}
	for i, o := range objs {
		start := buf.Len()
		if _, err := pw.WriteObject(types[i], o); err != nil {
			panic(err)
		}
		hdr := buf.Len() - len(o)
		for _, m := range []int{start - 1, start, start + 1, hdr - 1, hdr, hdr + 1, buf.Len() - 1} {
			marks[m] = true
		}
		if len(o) >= 1<<20 {
			for k := 1; k <= len(o)>>20; k++ {
				for _, m := range []int{hdr + k<<20 - 1, hdr + k<<20, hdr + k<<20 + 1} {
					marks[m] = true
				}
			}
		}
	}
	data := buf.Bytes()
	n := len(data)
	var pts []int
	for m := range marks {
		if m > 0 && m < n {
			pts = append(pts, m)
		}
	}
	sort.Ints(pts)
	decode := func(r io.Reader) (string, error) {
		pr, err := packfile.NewPackfileReader(io.NopCloser(r))
		if err != nil {
			return "", err
		}
		var out []string
		for {
			t, b, err := pr.ReadObject()
			if err == io.EOF {
				return strings.Join(out, " "), nil
			}
			if err != nil {
				return strings.Join(out, " "), err
			}
			out = append(out, fmt.Sprintf("%d:%d:%x", t, len(b), meow.Checksum(0, b)))
		}
	}
	want, werr := decode(bytes.NewReader(data))
	if werr != nil {
		panic("mc: large packfile does not decode from a whole buffer: " + werr.Error())
	}
	desc := fmt.Sprintf("packfile of 3 objects (%d, %d, %d bytes), %d bytes", len(objs[0]), len(objs[1]), len(objs[2]), n)
	var tried int64
	try := func(r *chunkReader, how string) bool {
		tried++
		var got string
		var err error
		if p, st := mc.Try(func() { got, err = decode(r) }); p != nil {
			c.Fail("panic", "PackfileReader on a %s delivered %s panicked: %v\n%s", desc, how, p, firstLinesOf(st, 8))
			return false
		}
		if err != nil || got != want {
			c.Fail("chunk-dependent", "PackfileReader on a %s delivered %s: err=%v objects [%s]; a whole-buffer read gives [%s]", desc, how, err, got, want)
			return false
		}
		return true
	}
	for _, eof := range []bool{false, true} {
		if !try(&chunkReader{data: data, eofWithData: eof}, fmt.Sprintf("in one read (eofWithData=%v)", eof)) {
			return
		}
		for _, u := range []int{1 << 12, 1 << 16, 1 << 20, 1<<20 + 1} {
			if !try(&chunkReader{data: data, uniform: u, eofWithData: eof}, fmt.Sprintf("in %d-byte chunks (eofWithData=%v)", u, eof)) {
				return
			}
		}
		for i, a := range pts {
			if !try(&chunkReader{data: data, cuts: []int{a}, eofWithData: eof}, fmt.Sprintf("cut at %d (eofWithData=%v)", a, eof)) {
				return
			}
			for _, b := range pts[i+1:] {
				if !try(&chunkReader{data: data, cuts: []int{a, b}, eofWithData: eof}, fmt.Sprintf("cut at %d,%d (eofWithData=%v)", a, b, eof)) {
					return
				}
			}
		}
	}
	c.Count("deliveries", tried)
	c.Outcome(fmt.Sprintf("large-ok-pos%d", pos))
	c.Nontrivial(desc)
	if c.WantSample() {
		c.Sample(map[string]any{"stream": desc, "deliveries_tried": tried, "cut_positions": len(pts)})
	}
}

func init() {
	register(&mc.Check{
		ID:    "C18",
		Level: "exploration",
		Rule: "for every valid stream of the seed corpus (3 commits, 4 tables, 6 blocks, 3 block indices, 2 profiles, string-list / uint-list sequences, pkt-lines, packfiles of 1..3 objects incl. a compressed block) and its reader entry point: " +
			"every partition of the stream into successive reads with 0, 1 and 2 cut points (3 cut points for streams <= 64 bytes, thorough <= 160 bytes), uniform chunk sizes 1..8, each with the final bytes delivered together with EOF or EOF on a separate call; " +
			"the decoded objects, byte counts and end-of-stream condition must equal those of a single whole-buffer read. Plus packfiles of three objects of which one has 1 MiB-1, 1 MiB, 1 MiB+1 or 2 MiB+77 bytes (first, middle or last), delivered whole, in 4 KiB / 64 KiB / 1 MiB / 1 MiB+1 chunks and with every one and two cut points drawn from the object boundaries, header edges and 1 MiB marks (each +-1). Plus (long-fields) commits, tables, profiles, pkt-line sequences and string lists with single fields of 101, 300, 2000 .. 65535 bytes: uniform delivery in chunks of 1..8, 99..101, 512 and 4096 bytes (a field arrives in up to 65 535 reads) and every single cut point for streams up to 8 KiB. evaluations = (stream, mode) cases; the counter 'deliveries' is the number of chunked decodes; non-trivial = at least one delivery pattern tried; distinct by stream and mode",
		Assumptions: []string{"zero-byte non-EOF reads are not generated (io.Reader discourages them)", "streams are the listed seed encodings, not all valid encodings"},
		Harnesses: []*mc.Harness{
			{Name: "chunked-readers", Body: c18Body, Budget: map[string]time.Duration{"quick": 60 * time.Second, "thorough": 10 * time.Minute}},
			{Name: "long-fields", Body: c18Long, Budget: map[string]time.Duration{"quick": 60 * time.Second, "thorough": 5 * time.Minute}},
			{Name: "large-objects", Body: c18Large, Budget: map[string]time.Duration{"quick": 90 * time.Second, "thorough": 5 * time.Minute}},
		},
	})
}
