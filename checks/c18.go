package checks

import (
	"bytes"
	"fmt"
	"io"
	"time"

	"verif/mc"
)

// C18 — decoding a stream does not depend on how the transport chunks it.

// chunkReader delivers data in successive reads that never cross a cut point. With
// eofWithData the final bytes are returned together with io.EOF.
type chunkReader struct {
	data        []byte
	cuts        []int // ascending positions in (0,len)
	uniform     int   // if > 0: chunks of this size instead of cuts
	eofWithData bool
	pos         int
	Reads       int
}

func (r *chunkReader) Read(p []byte) (int, error) {
	r.Reads++
	if r.pos >= len(r.data) {
		return 0, io.EOF
	}
	if len(p) == 0 {
		return 0, nil
	}
	end := len(r.data)
	if r.uniform > 0 {
		e := (r.pos/r.uniform + 1) * r.uniform
		if e < end {
			end = e
		}
	} else {
		for _, c := range r.cuts {
			if c > r.pos {
				if c < end {
					end = c
				}
				break
			}
		}
	}
	n := end - r.pos
	if n > len(p) {
		n = len(p)
	}
	copy(p, r.data[r.pos:r.pos+n])
	r.pos += n
	if r.pos == len(r.data) && r.eofWithData {
		return n, io.EOF
	}
	return n, nil
}

func c18Body(c *mc.Ctx) {
	seeds := seedStreams()
	s := seeds[c.Choose(len(seeds))]
	mode := c.Choose(3) // 0: cut points, 1: uniform chunks, 2: three cut points on short streams (thorough)
	c.Shard()
	want, werr := s.dec.decode(bytes.NewReader(s.data))
	if werr != nil {
		panic(fmt.Sprintf("mc: seed stream %s does not decode from a whole buffer: %v", s.name, werr))
	}
	n := len(s.data)
	var tried int64
	failed := false
	try := func(r *chunkReader, how string) {
		if failed {
			return
		}
		tried++
		var got string
		var err error
		if p, st := mc.Try(func() { got, err = s.dec.decode(r) }); p != nil {
			c.Fail("panic", "%s on stream %s (%d bytes) delivered %s panicked: %v\n%s", s.dec.name, s.name, n, how, p, firstLinesOf(st, 8))
			failed = true
			return
		}
		if err != nil || got != want {
			c.Fail("chunk-dependent", "%s on stream %s (%d bytes) delivered %s: err=%v decoded %.200s; whole-buffer read decodes %.200s", s.dec.name, s.name, n, how, err, got, want)
			failed = true
		}
	}
	for _, eof := range []bool{false, true} {
		switch mode {
		case 0:
			try(&chunkReader{data: s.data, eofWithData: eof}, fmt.Sprintf("in one read (eofWithData=%v)", eof))
			for a := 1; a < n; a++ {
				try(&chunkReader{data: s.data, cuts: []int{a}, eofWithData: eof}, fmt.Sprintf("cut at %d (eofWithData=%v)", a, eof))
			}
			if n <= 400 || c.Thorough() {
				for a := 1; a < n; a++ {
					for b := a + 1; b < n; b++ {
						try(&chunkReader{data: s.data, cuts: []int{a, b}, eofWithData: eof}, fmt.Sprintf("cut at %d,%d (eofWithData=%v)", a, b, eof))
					}
				}
			}
		case 1:
			for u := 1; u <= 8; u++ {
				try(&chunkReader{data: s.data, uniform: u, eofWithData: eof}, fmt.Sprintf("in %d-byte chunks (eofWithData=%v)", u, eof))
			}
		case 2:
			// three cut points: streams up to 64 bytes (thorough: up to 160 bytes)
			if n > 160 || (!c.Thorough() && n > 64) {
				continue
			}
			for a := 1; a < n; a++ {
				for b := a + 1; b < n; b++ {
					for d := b + 1; d < n; d++ {
						try(&chunkReader{data: s.data, cuts: []int{a, b, d}, eofWithData: eof}, fmt.Sprintf("cut at %d,%d,%d (eofWithData=%v)", a, b, d, eof))
					}
				}
			}
		}
	}
	c.Count("deliveries", tried)
	c.Outcome(fmt.Sprintf("%s-ok=%v", s.dec.name, !failed))
	if tried > 0 {
		c.Nontrivial(fmt.Sprintf("%s/%d", s.name, mode))
	}
	if c.WantSample() && mode == 0 {
		c.Sample(map[string]any{"stream": s.name, "bytes": n, "decoder": s.dec.name, "deliveries_tried": tried})
	}
}

func init() {
	register(&mc.Check{
		ID:    "C18",
		Level: "exploration",
		Rule: "for every valid stream of the seed corpus (3 commits, 4 tables, 6 blocks, 3 block indices, 2 profiles, string-list / uint-list sequences, pkt-lines, packfiles of 1..3 objects incl. a compressed block) and its reader entry point: " +
			"every partition of the stream into successive reads with 0, 1 and 2 cut points (3 cut points for streams <= 64 bytes, thorough <= 160 bytes), uniform chunk sizes 1..8, each with the final bytes delivered together with EOF or EOF on a separate call; " +
			"the decoded objects, byte counts and end-of-stream condition must equal those of a single whole-buffer read. evaluations = (stream, mode) cases; the counter 'deliveries' is the number of chunked decodes; non-trivial = at least one delivery pattern tried; distinct by stream and mode",
		Assumptions: []string{"zero-byte non-EOF reads are not generated (io.Reader discourages them)", "streams are the listed seed encodings, not all valid encodings"},
		Harnesses: []*mc.Harness{
			{Name: "chunked-readers", Body: c18Body, Budget: map[string]time.Duration{"quick": 60 * time.Second, "thorough": 10 * time.Minute}},
		},
	})
}
