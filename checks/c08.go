package checks

import (
	"bytes"
	"errors"
	"fmt"
	"sort"
	"time"

	apiutils "github.com/wrgl/wrgl/pkg/api/utils"
	"github.com/wrgl/wrgl/pkg/ref"
	"github.com/wrgl/wrgl/pkg/verifrt"

	"verif/mc"
	"verif/model"
	"verif/stores"
)

// C08 — negotiation picks a closed, parent-first commit set covering every want.

func needRewrite(name string) {
	if !verifrt.Has(name) {
		panic("mc: infrastructure: overlay rewrite " + name + " was not applied (its target text changed); this harness cannot own that nondeterminism")
	}
}

type c08case struct {
	g        *model.Graph
	times    []int
	tips     uint64
	wants    uint64
	haves    []int // node ids, -1 = unknown hash
	split    int
	done1    bool
	depth    int
	missing  int // node whose table is absent, -1 none
	wantPerm []int
}

func (k *c08case) String() string {
	return fmt.Sprintf("parents=%v times=%v tips=%v wants=%v haves=%v split=%d done1=%v depth=%d tableMissing=%d wantOrder=%v",
		k.g.Parents, k.times, model.Bits(k.tips), model.Bits(k.wants), k.haves, k.split, k.done1, k.depth, k.missing, k.wantPerm)
}

var c08unknown = bytes.Repeat([]byte{0xee}, 16)

// c08run executes one negotiation on the real finder and checks P1..P6.
func c08run(c *mc.Ctx, k *c08case, getBound int) {
	n := k.g.N()
	db := stores.NewMemStore()
	tables := make([][]byte, n)
	for i := range tables {
		tables[i] = bytes.Repeat([]byte{byte(0xa0 + i)}, 16)
		if i != k.missing {
			db.PutRaw("tbl/"+string(tables[i]), []byte("t"))
		}
	}
	sums, err := buildCommits(db, k.g, k.times, tables)
	if err != nil {
		panic(err)
	}
	rs := stores.NewMapRefStore()
	for _, t := range model.Bits(k.tips) {
		if err := rs.Set(fmt.Sprintf("heads/b%d", t), sums[t]); err != nil {
			panic(err)
		}
	}
	anc := k.g.Anc()
	var reach uint64
	for _, t := range model.Bits(k.tips) {
		reach |= anc[t]
	}
	desc := k.String()
	c.Logf("%s", desc)
	verifrt.MapPerm = func(site string, m int) []int {
		if site == "finder.Wants" && len(k.wantPerm) == m {
			return k.wantPerm
		}
		return nil
	}
	defer func() { verifrt.MapPerm = nil }()

	toSums := func(ids []int) [][]byte {
		var out [][]byte
		for _, h := range ids {
			if h < 0 {
				out = append(out, c08unknown)
			} else {
				out = append(out, sums[h])
			}
		}
		return out
	}
	var wantSums [][]byte
	for _, w := range model.Bits(k.wants) {
		wantSums = append(wantSums, sums[w])
	}
	db.ResetCounters()
	f := apiutils.NewClosedSetsFinder(db, rs, k.depth)
	var commons uint64
	checkAcks := func(acks [][]byte, given []int) bool {
		for _, a := range acks {
			i := indexOfSum(sums, a)
			ok := false
			for _, h := range given {
				if h == i && h >= 0 {
					ok = true
				}
			}
			if i < 0 || !ok {
				c.Fail("acks", "ack %x (node %d) is not one of the haves of this round %v; %s", a, i, given, desc)
				return false
			}
			if reach&(1<<uint(i)) == 0 {
				c.Fail("acks", "acked node %d is not reachable from any ref; %s", i, desc)
				return false
			}
			commons |= 1 << uint(i)
		}
		return true
	}
	acks, err := f.Process(wantSums, toSums(k.haves[:k.split]), k.done1)
	unreachable := k.wants&^reach != 0
	tableless := k.missing >= 0 && k.wants&(1<<uint(k.missing)) != 0
	if err != nil {
		var uw *apiutils.UnrecognizedWantsError
		if !errors.As(err, &uw) {
			c.Fail("error", "Process returned %v; %s", err, desc)
			return
		}
		if !unreachable && !tableless {
			c.Fail("wants-refused", "every want is reachable from a ref and has its table, yet Process refused: %v; %s", err, desc)
			return
		}
		// a refusal leaves nothing behind: repeating the request on the same finder is refused again,
		// and the finder selects nothing
		if unreachable {
			if _, err2 := f.Process(wantSums, nil, true); err2 == nil {
				c.Fail("wants-not-refused", "wants %v are not reachable from any ref: the first Process refused them, the same request repeated on the same finder was accepted; %s", model.Bits(k.wants&^reach), desc)
				return
			}
			if cs, _ := f.CommitsToSend(); len(cs) > 0 {
				c.Fail("unreachable-sent", "after refusing the wants the finder still selects %d commits; %s", len(cs), desc)
				return
			}
		}
		c.Outcome("refused")
		return
	}
	if unreachable {
		c.Fail("wants-not-refused", "wants %v are not reachable from any ref (reachable: %v) but Process accepted them; %s", model.Bits(k.wants&^reach), model.Bits(reach), desc)
		return
	}
	if !checkAcks(acks, k.haves[:k.split]) {
		return
	}
	rounds := 1
	if !k.done1 && len(f.Wants) > 0 && k.split < len(k.haves) {
		acks, err = f.Process(nil, toSums(k.haves[k.split:]), true)
		if err != nil {
			c.Fail("error", "second Process returned %v; %s", err, desc)
			return
		}
		if !checkAcks(acks, k.haves[k.split:]) {
			return
		}
		rounds = 2
	}
	sent, err := f.CommitsToSend()
	if err != nil {
		c.Fail("error", "CommitsToSend returned %v; %s", err, desc)
		return
	}
	tbls, err := f.TablesToSend()
	if err != nil {
		c.Fail("error", "TablesToSend returned %v; %s", err, desc)
		return
	}
	gets := db.Gets
	// commons as the finder reports them must be the acked ones
	for _, cc := range f.CommonCommmits() {
		i := indexOfSum(sums, cc)
		if i < 0 || commons&(1<<uint(i)) == 0 {
			c.Fail("acks", "CommonCommmits contains node %d which was never acked; %s", i, desc)
		}
	}
	var ancCommons, ancWants uint64
	for _, i := range model.Bits(commons) {
		ancCommons |= anc[i]
	}
	for _, w := range model.Bits(k.wants) {
		ancWants |= anc[w]
	}
	var sentSet uint64
	order := []int{}
	for pos, cm := range sent {
		i := indexOfSum(sums, cm.Sum)
		if i < 0 {
			c.Fail("closure", "CommitsToSend[%d] is not a commit of this history; %s", pos, desc)
			return
		}
		order = append(order, i)
		for _, p := range k.g.Parents[i] {
			if ancCommons&(1<<uint(p)) == 0 && sentSet&(1<<uint(p)) == 0 {
				c.Fail("parent-first", "CommitsToSend=%v: node %d at position %d comes before its parent %d, which is not an ancestor of a common commit (commons %v); %s",
					"…", i, pos, p, model.Bits(commons), desc)
			}
		}
		sentSet |= 1 << uint(i)
	}
	c.Logf("sent order=%v commons=%v rounds=%d", order, model.Bits(commons), rounds)
	if miss := ancWants &^ (sentSet | ancCommons); miss != 0 {
		c.Fail("closure", "ancestors %v of the wants are neither sent (%v) nor ancestors of an acked common commit (%v); %s", model.Bits(miss), order, model.Bits(commons), desc)
	}
	if extra := sentSet &^ ancWants; extra != 0 {
		c.Fail("unreachable-sent", "sent commits %v are not ancestors of any want; %s", model.Bits(extra), desc)
	}
	// depth: shortest distance from the nearest want
	dist := make([]int, n)
	for i := range dist {
		dist[i] = 1 << 30
	}
	frontier := model.Bits(k.wants)
	for _, w := range frontier {
		dist[w] = 0
	}
	for len(frontier) > 0 {
		var next []int
		for _, x := range frontier {
			for _, p := range k.g.Parents[x] {
				if dist[p] > dist[x]+1 {
					dist[p] = dist[x] + 1
					next = append(next, p)
				}
			}
		}
		frontier = next
	}
	for i := 0; i < n; i++ {
		_, has := tbls[string(tables[i])]
		inSent := sentSet&(1<<uint(i)) != 0
		if !inSent {
			if has {
				c.Fail("tables", "table of node %d selected although the commit is not sent (%v); %s", i, order, desc)
			}
			continue
		}
		if ancCommons&(1<<uint(i)) != 0 {
			continue // the other side already has this commit; either answer is acceptable
		}
		want := k.depth == 0 || dist[i] < k.depth
		if has != want {
			c.Fail("tables-depth", "table of sent node %d (distance %d from the nearest want, depth %d): selected=%v expected=%v; sent=%v; %s", i, dist[i], k.depth, has, want, order, desc)
		}
	}
	if len(tbls) > n {
		c.Fail("tables", "TablesToSend has %d entries for %d commits; %s", len(tbls), n, desc)
	}
	if getBound > 0 && gets > getBound {
		c.Fail("complexity", "%d object-store reads for a history of %d commits (bound %d); %s", gets, n, getBound, desc)
	}
	c.Outcome(fmt.Sprintf("sent%d-commons%d-rounds%d", len(model.Bits(sentSet)), len(model.Bits(commons)), rounds))
	if len(order) >= 2 || commons != 0 {
		c.Nontrivial(desc)
	}
	if c.WantSample() && len(order) >= 3 && commons != 0 {
		c.Sample(map[string]any{"case": desc, "sent_order": order, "commons": model.Bits(commons)})
	}
}

// c08Body enumerates graph, ref tips, wants, haves and depth completely; the remaining
// dimensions (commit-time order, unknown have, have order, round split, done flag, missing
// table, iteration order of the want set) are deviations from a default, bounded per tier.
func hasMerge(g *model.Graph) bool {
	for _, ps := range g.Parents {
		if len(ps) > 1 {
			return true
		}
	}
	return false
}

func c08Body(nmin, nmax int, maxSub map[string]int) func(c *mc.Ctx) {
	return func(c *mc.Ctx) {
		needRewrite("maporder:finder")
		k := &c08case{}
		n := nmin + c.Choose(nmax-nmin+1)
		k.g = model.ChooseGraph(n, 2, c.Choose)
		ms := maxSub[c.Tier]
		if ms > n {
			ms = n
		}
		k.tips = chooseSubset(c, n, 1, ms, true)
		k.wants = chooseSubset(c, n, 1, ifInt(ms > 3, 3, ms), false)
		hv := chooseSubset(c, n, 0, ms, false)
		k.haves = model.Bits(hv)
		k.depth = c.Choose(3)
		if hasMerge(k.g) && (n <= 3 || c.Thorough()) && c.ChooseDev(2) == 1 {
			k.g = k.g.SwapMergeParents() // merge commits list their parents farthest first
		}
		tas := timeAssignments(n, false) // ascending, descending, equal, pairwise
		k.times = tas[c.ChooseDev(3)]
		switch c.ChooseDev(3) {
		case 1:
			k.haves = append([]int{-1}, k.haves...)
		case 2:
			k.haves = append(k.haves, -1)
		}
		if len(k.haves) >= 2 && c.ChooseDev(2) == 1 {
			for i, j := 0, len(k.haves)-1; i < j; i, j = i+1, j-1 {
				k.haves[i], k.haves[j] = k.haves[j], k.haves[i]
			}
		}
		// default: a single round carrying every have, done=true
		k.split = len(k.haves) - c.ChooseDev(len(k.haves)+1)
		k.done1 = c.ChooseDev(2) == 0
		k.missing = c.ChooseDev(n+1) - 1
		nw := len(model.Bits(k.wants))
		if nw >= 2 {
			ps := model.Perms(nw)
			k.wantPerm = ps[c.ChooseDev(len(ps))]
		}
		c.Shard()
		e := 0
		for _, p := range k.g.Parents {
			e += len(p)
		}
		c08run(c, k, 8*(n+e)*(n+e)+64)
	}
}

func ifInt(b bool, x, y int) int {
	if b {
		return x
	}
	return y
}

// chooseSubset enumerates subsets of 0..n-1 with size in [min,max]; withFull also offers the full set.
func chooseSubset(c *mc.Ctx, n, min, max int, withFull bool) uint64 {
	var opts []uint64
	full := uint64(1)<<uint(n) - 1
	for m := uint64(0); m <= full; m++ {
		sz := len(model.Bits(m))
		if sz >= min && (sz <= max || (withFull && m == full)) {
			opts = append(opts, m)
		}
	}
	return opts[c.Choose(len(opts))]
}

// ladders: k stacked diamonds, wanted tip, nothing in common: the closed set is the whole
// history and the read count must stay polynomial.
func c08Ladder(c *mc.Ctx) {
	needRewrite("maporder:finder")
	kmax := 16
	if c.Thorough() {
		kmax = 20
	}
	kd := 1 + c.Choose(kmax)
	criss := c.Bool()
	// 0: nothing in common; 1: the root is a have; 2: the top of the ladder is a have and the
	// wanted tip is one commit above it (the walk over the have's ancestry covers the ladder)
	common := c.Choose(3)
	depth := c.Choose(2)
	c.Shard()
	g := &model.Graph{}
	g.Parents = append(g.Parents, []int{})
	top := 0
	if !criss {
		for i := 0; i < kd; i++ {
			a := len(g.Parents)
			g.Parents = append(g.Parents, []int{top}, []int{top}, []int{a, a + 1})
			top = a + 2
		}
	} else {
		// criss-cross: two rails, each level's two commits both merge both commits below
		g.Parents = append(g.Parents, []int{0}, []int{0})
		l, r := 1, 2
		for i := 0; i < kd; i++ {
			a := len(g.Parents)
			g.Parents = append(g.Parents, []int{l, r}, []int{r, l})
			l, r = a, a+1
		}
		a := len(g.Parents)
		g.Parents = append(g.Parents, []int{l, r})
		top = a
	}
	ladderTop := top
	if common == 2 {
		g.Parents = append(g.Parents, []int{top})
		top = len(g.Parents) - 1
	}
	n := g.N()
	times := make([]int, n)
	for i := range times {
		times[i] = i
	}
	k := &c08case{g: g, times: times, tips: 1 << uint(top), wants: 1 << uint(top), depth: depth, missing: -1, done1: true}
	switch common {
	case 1:
		k.haves = []int{0}
		k.split = 1
	case 2:
		k.haves = []int{ladderTop}
		k.split = 1
	}
	e := 0
	for _, p := range g.Parents {
		e += len(p)
	}
	c08run(c, k, 8*(n+e)*(n+e)+64)
}

// c08LongChain: linear histories of about one and about two thousand commits (just below, at and above 1024
// and 2048), one or two wants anywhere on the chain in both orders, no have / one have below, between or above
// the wants, haves in one or two rounds. On a chain the oracle needs no bitmasks: ancestors of node i are 0..i.
func c08LongChain(c *mc.Ctx) {
	needRewrite("maporder:finder")
	n := []int{1023, 1024, 1025, 1200, 2047, 2049, 2100}[c.Choose(7)]
	pos := []int{5, n / 2, n - 2, n - 1}
	w1 := pos[c.Choose(len(pos))]
	w2 := pos[c.Choose(len(pos))]
	have := []int{-1, 3, n/2 + 7, n - 2}[c.Choose(4)]
	reverseWants := c.Bool()
	twoRounds := c.Bool()
	c.Shard()
	g := &model.Graph{}
	times := make([]int, n)
	for i := 0; i < n; i++ {
		if i == 0 {
			g.Parents = append(g.Parents, []int{})
		} else {
			g.Parents = append(g.Parents, []int{i - 1})
		}
		times[i] = i
	}
	db := stores.NewMemStore()
	tables := make([][]byte, n)
	for i := range tables {
		tables[i] = []byte(fmt.Sprintf("tbl-%012d", i))
		db.PutRaw("tbl/"+string(tables[i]), []byte("t"))
	}
	sums, err := buildCommits(db, g, times, tables)
	if err != nil {
		panic(err)
	}
	rs := stores.NewMapRefStore()
	rs.Set("heads/main", sums[n-1])
	wants := []int{w1}
	if w2 != w1 {
		wants = append(wants, w2)
	}
	sort.Ints(wants)
	desc := fmt.Sprintf("linear history of %d commits, ref on the tip; wants=%v (map order reversed: %v) have=%d haves in a second round: %v", n, wants, reverseWants, have, twoRounds)
	c.Logf("%s", desc)
	verifrt.MapPerm = func(site string, m int) []int {
		if site == "finder.Wants" && m == 2 && reverseWants {
			return []int{1, 0}
		}
		return nil
	}
	defer func() { verifrt.MapPerm = nil }()
	var wantSums, haveSums [][]byte
	for _, w := range wants {
		wantSums = append(wantSums, sums[w])
	}
	if have >= 0 {
		haveSums = [][]byte{sums[have]}
	}
	db.ResetCounters()
	f := apiutils.NewClosedSetsFinder(db, rs, 0)
	var acks [][]byte
	if twoRounds {
		if _, err = f.Process(wantSums, nil, false); err == nil && len(f.Wants) > 0 {
			acks, err = f.Process(nil, haveSums, true)
		}
	} else {
		acks, err = f.Process(wantSums, haveSums, true)
	}
	if err != nil {
		var uw *apiutils.UnrecognizedWantsError
		if errors.As(err, &uw) {
			c.Fail("wants-refused", "every want is an ancestor of the only ref, yet Process refused: %v; %s", err, desc)
		} else {
			c.Fail("error", "Process returned %v; %s", err, desc)
		}
		return
	}
	maxWant := wants[len(wants)-1]
	common := -1
	for _, a := range acks {
		i := indexOfSum(sums, a)
		if i != have || have < 0 {
			c.Fail("acks", "ack %x (node %d) is not the have %d of this request; %s", a, i, have, desc)
			return
		}
		common = i
	}
	sent, err := f.CommitsToSend()
	if err != nil {
		c.Fail("error", "CommitsToSend returned %v; %s", err, desc)
		return
	}
	// closure: sent + ancestors of the acked common commit cover 0..maxWant; parent-first; nothing above the highest want
	covered := common
	last := -1
	seen := map[int]bool{}
	for posn, cm := range sent {
		i := indexOfSum(sums, cm.Sum)
		if i < 0 || seen[i] {
			c.Fail("closure", "CommitsToSend[%d] is not a commit of this history or is listed twice; %s", posn, desc)
			return
		}
		seen[i] = true
		if i > maxWant {
			c.Fail("unreachable-sent", "node %d is sent but no want reaches it (highest want %d); %s", i, maxWant, desc)
			return
		}
		if i > 0 && !seen[i-1] && i-1 > common {
			c.Fail("parent-first", "node %d is listed before its parent %d, which is neither common nor listed earlier; %s", i, i-1, desc)
			return
		}
		last = i
	}
	_ = last
	for i := covered + 1; i <= maxWant; i++ {
		if !seen[i] {
			c.Fail("closure", "node %d is an ancestor of want %d, is not an ancestor of an acknowledged common commit (%d) and is not sent (%d commits sent); %s", i, maxWant, common, len(sent), desc)
			return
		}
	}
	if have >= 0 && have <= maxWant && common < 0 && !twoRounds {
		// a have that is an ancestor of a want is a commit of this history reachable from the ref: it must be acknowledged
		c.Fail("acks", "have %d is an ancestor of want %d but was not acknowledged; %s", have, maxWant, desc)
		return
	}
	if gets := db.Gets; gets > 8*(2*n)*(2*n)+64 {
		c.Fail("read-bound", "%d store reads for a history of %d commits; %s", gets, n, desc)
		return
	}
	c.Outcome(fmt.Sprintf("sent-%s-common=%v", map[bool]string{true: "some", false: "none"}[len(sent) > 0], common >= 0))
	c.Nontrivial(desc)
	if c.WantSample() && have > 0 && len(wants) == 2 {
		c.Sample(map[string]any{"case": desc, "sent": len(sent), "store_reads": db.Gets})
	}
}

func init() {
	register(&mc.Check{
		ID:    "C08",
		Level: "exploration",
		Rule: "every commit DAG with 1..4 (thorough 5) nodes x ref-tip subsets x want subsets (<=3) x have subsets x depth 0..2, completely; crossed with up to d deviations (d per harness, in the evidence) from the defaults of: " +
			"commit-time order {ascending, descending, equal}, an unknown hash first/last among the haves, reversed have order, split of the haves into two Process rounds, done flag, one table absent, " +
			"iteration order of the finder's want set (overlay-owned map order; all permutations); " +
			"plus diamond and criss-cross ladders of 1..16 (20) levels for the read-count bound; plus (long-chains) linear histories of 1023, 1024, 1025, 1200, 2047, 2049 and 2100 commits with one or two wants from {5, n/2, n-2, tip} in both map orders, no have or one have at 3 / n/2+7 / n-2, haves in the first or in a second round, judged by an index oracle (ancestors of node i are 0..i). Each negotiation runs the real ClosedSetsFinder over real commit objects and the SQL ref store and is compared " +
			"with bitmask reachability: closure, parent-first order, nothing unreachable, depth-limited tables, refusal of unreachable wants (also when the refused request is repeated on the same finder), acks, reads <= 8(n+e)^2+64. " +
			"non-trivial = at least two commits sent or a common commit acknowledged; distinct by full case description",
		Assumptions: []string{
			"a want whose own table is absent may be refused or accepted (the statement only requires refusal of unreachable wants)",
			"commits that are ancestors of an acknowledged common commit may or may not be sent, with or without their table",
			"at most two Process rounds; the second round is only issued when the finder still has unresolved wants (as the protocol does)",
		},
		Harnesses: []*mc.Harness{
			{Name: "dags-n1to3", Body: c08Body(1, 3, map[string]int{"quick": 3, "thorough": 3}), DevBound: map[string]int{"quick": 2, "thorough": 7},
				Budget: map[string]time.Duration{"quick": 60 * time.Second, "thorough": 10 * time.Minute}},
			{Name: "dags-n4", Body: c08Body(4, 4, map[string]int{"quick": 2, "thorough": 3}), DevBound: map[string]int{"quick": 1, "thorough": 2},
				Budget: map[string]time.Duration{"quick": 3 * time.Minute, "thorough": 14 * time.Minute}},
			{Name: "dags-n5", OnlyTier: "thorough", Body: c08Body(5, 5, map[string]int{"thorough": 2}), DevBound: map[string]int{"thorough": 1},
				Budget: map[string]time.Duration{"thorough": 14 * time.Minute}},
			{Name: "long-chains", Body: c08LongChain, Budget: map[string]time.Duration{"quick": 60 * time.Second, "thorough": 5 * time.Minute}},
			{Name: "ladders", Body: c08Ladder, Budget: map[string]time.Duration{"quick": 60 * time.Second, "thorough": 5 * time.Minute}},
		},
	})
}

var _ = ref.HeadPrefix
