// Package mc is the exploration core: a stateless choice-tree DFS whose cases are
// re-executions of a harness body against the real wrgl code, sharded over worker
// processes, with deviation bounding, crash capture and replay.
package mc

import (
	"fmt"
	"hash/fnv"
	"runtime/debug"
)

// Ctx is handed to a harness body for one execution.
type Ctx struct {
	w       *Worker
	Tier    string
	prefix  []int
	choices []int
	arity   []int
	dev     []bool
	devUsed int
	sharded bool
	owned   bool
	log     []string
	failed  bool
	replay  bool
}

type notMine struct{}
type abortCase struct{}

// Thorough reports whether the run is the thorough tier.
func (c *Ctx) Thorough() bool { return c.Tier == "thorough" }

// Choose returns a value in [0,n). Every value is explored.
func (c *Ctx) Choose(n int) int { return c.choose(n, false) }

// ChooseDev returns 0 (the default) or, while the deviation budget lasts, any value in
// [1,n). A non-default answer costs one deviation.
func (c *Ctx) ChooseDev(n int) int { return c.choose(n, true) }

func (c *Ctx) choose(n int, dev bool) int {
	if n <= 0 {
		panic(fmt.Sprintf("mc: Choose(%d)", n))
	}
	if dev && c.devUsed >= c.w.DevBound {
		n = 1
	}
	i := len(c.choices)
	v := 0
	if i < len(c.prefix) {
		v = c.prefix[i]
		if v >= n {
			panic(fmt.Sprintf("mc: harness nondeterminism: replayed choice %d out of range %d at position %d", v, n, i))
		}
	}
	c.choices = append(c.choices, v)
	c.arity = append(c.arity, n)
	c.dev = append(c.dev, dev)
	if dev && v != 0 {
		c.devUsed++
	}
	if len(c.choices) > c.w.res.MaxDepth {
		c.w.res.MaxDepth = len(c.choices)
	}
	return v
}

// Pick is Choose over a slice.
func Pick[T any](c *Ctx, xs []T) T { return xs[c.Choose(len(xs))] }

// Bool is Choose(2)==1.
func (c *Ctx) Bool() bool { return c.Choose(2) == 1 }

// Shard marks the end of the cheap, execution-independent part of a case. Everything
// after it runs in exactly one worker.
func (c *Ctx) Shard() {
	if c.sharded {
		return
	}
	c.sharded = true
	if c.replay {
		c.owned = true
		return
	}
	w := c.w
	same := w.lastShard != nil && eqInts(w.lastShard, c.choices)
	if !same {
		w.caseIdx++
		w.lastShard = append(w.lastShard[:0], c.choices...)
		if w.lastShard == nil {
			w.lastShard = []int{}
		}
	}
	idx := w.caseIdx
	if idx%int64(w.Of) != int64(w.Shard) || idx < w.Start || w.skip[idx] {
		panic(notMine{})
	}
	if w.Limit > 0 && w.ownedCases >= w.Limit && !same {
		w.capped = true
		panic(notMine{})
	}
	if !same {
		w.ownedCases++
	}
	c.owned = true
	w.progress(idx, c.prefix)
}

// SetCrashClass names the shape of the current case; if the worker process dies while the
// case runs, the crash is reported under class "crash:<shape>:<panic fingerprint>".
func (c *Ctx) SetCrashClass(shape string) {
	if c.replay {
		return
	}
	c.w.progressClass(shape)
}

// TryShard is Shard for code that does not run on the body's goroutine (scheduler callbacks):
// it reports whether this worker owns the case instead of unwinding.
func (c *Ctx) TryShard() (owned bool) {
	if c.sharded {
		return c.owned
	}
	defer func() {
		if r := recover(); r != nil {
			if _, ok := r.(notMine); ok {
				owned = false
				return
			}
			panic(r)
		}
	}()
	c.Shard()
	return true
}

// Abandon stops the execution of a case this worker does not own (after TryShard returned false).
// It must be called on the body's goroutine.
func (c *Ctx) Abandon() { panic(notMine{}) }

// Skip abandons this case without counting it (used to discard redundant enumerations).
func (c *Ctx) Skip() { panic(abortCase{}) }

// Logf appends to the per-execution log kept with a violation.
func (c *Ctx) Logf(format string, a ...any) {
	if len(c.log) < 200 {
		c.log = append(c.log, fmt.Sprintf(format, a...))
	}
}

// Fail records a violation of the property. class names a narrow classifier (used for
// known findings); "" means unclassified.
func (c *Ctx) Fail(class, format string, a ...any) {
	c.failed = true
	c.w.addViolation(c, class, fmt.Sprintf(format, a...))
}

// Failed reports whether Fail was called in this execution.
func (c *Ctx) Failed() bool { return c.failed }

// Outcome adds to the distinct-outcome histogram.
func (c *Ctx) Outcome(o string) { c.w.res.Outcomes[o]++ }

// Count adds to a named counter reported in the evidence.
func (c *Ctx) Count(name string, n int64) { c.w.res.Counters[name] += n }

// Nontrivial records a canonical key of a non-trivial case.
func (c *Ctx) Nontrivial(key string) {
	h := fnv.New64a()
	h.Write([]byte(key))
	c.w.distinct[h.Sum64()] = struct{}{}
}

// NontrivialBytes is Nontrivial for byte keys.
func (c *Ctx) NontrivialBytes(key []byte) {
	h := fnv.New64a()
	h.Write(key)
	c.w.distinct[h.Sum64()] = struct{}{}
}

// Emit records that this case maps key to val. Two cases (in any worker) that map one key
// to different values are reported as a violation of class "injectivity" whose replay runs
// both cases.
func (c *Ctx) Emit(key [16]byte, val string) {
	h := fnv.New64a()
	h.Write([]byte(val))
	v := h.Sum64()
	w := c.w
	if old, ok := w.emit[key]; ok {
		if old.val != v {
			w.res.VioCounts["injectivity"]++
			if w.res.VioCounts["injectivity"] <= maxVioPerClass {
				w.res.Violations = append(w.res.Violations, Violation{Property: w.Property, Harness: w.Harness, Tier: w.Tier,
					Choices: append([]int{}, c.choices...), Choices2: decodeChoices(old.choices), Class: "injectivity",
					Message: fmt.Sprintf("two different cases map to the same identifier %x; this one: %s", key, val)})
			}
			c.failed = true
		}
		return
	}
	w.emit[key] = emitRec{val: v, choices: encodeChoices(c.choices)}
}

// Sample offers a written-out case for the evidence (the first few are kept).
func (c *Ctx) Sample(v any) {
	if len(c.w.res.Samples) < 3 {
		c.w.res.Samples = append(c.w.res.Samples, v)
	}
}

// WantSample reports whether another sample would be kept.
func (c *Ctx) WantSample() bool { return len(c.w.res.Samples) < 3 }

// Try runs f and returns the panic value and stack, if any.
func Try(f func()) (p any, stack string) {
	defer func() {
		if r := recover(); r != nil {
			switch r.(type) {
			case notMine, abortCase:
				panic(r)
			}
			p = r
			stack = string(debug.Stack())
		}
	}()
	f()
	return nil, ""
}

func eqInts(a, b []int) bool {
	if len(a) != len(b) {
		return false
	}
	for i := range a {
		if a[i] != b[i] {
			return false
		}
	}
	return true
}
