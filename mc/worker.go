package mc

import (
	"encoding/binary"
	"encoding/json"
	"fmt"
	"os"
	"sort"
	"time"
)

// Violation is one failing execution.
type Violation struct {
	Property string   `json:"property"`
	Harness  string   `json:"harness"`
	Tier     string   `json:"tier"`
	Choices  []int    `json:"choices"`
	Choices2 []int    `json:"choices2,omitempty"` // a second case to run first (pair violations)
	Class    string   `json:"class"`
	Message  string   `json:"message"`
	Log      []string `json:"log,omitempty"`
	Crash    bool     `json:"crash,omitempty"`
}

// Result is what a worker (or an in-process engine) reports.
type Result struct {
	Evaluations int64            `json:"evaluations"`
	Cases       int64            `json:"cases"`
	Outcomes    map[string]int64 `json:"outcomes"`
	Counters    map[string]int64 `json:"counters"`
	Samples     []any            `json:"samples"`
	Violations  []Violation      `json:"violations"`
	VioCounts   map[string]int64 `json:"violation_counts"`
	MaxDepth    int              `json:"max_depth"`
	NextIndex   int64            `json:"next_index"`
	Done        bool             `json:"done"`
	Capped      string           `json:"capped,omitempty"`
	Distinct    int64            `json:"distinct"`
}

func NewResult() *Result {
	return &Result{Outcomes: map[string]int64{}, Counters: map[string]int64{}, VioCounts: map[string]int64{}}
}

// Worker explores the shard of one harness.
type Worker struct {
	Property  string
	Harness   string
	Tier      string
	Shard, Of int
	Start     int64
	Limit     int64 // max owned cases (0 = none)
	DevBound  int
	Deadline  time.Time
	OutPath   string // result json; OutPath+".hashes" distinct hashes; OutPath+".progress"
	skip      map[int64]bool

	res        *Result
	emit       map[[16]byte]emitRec
	distinct   map[uint64]struct{}
	caseIdx    int64
	ownedCases int64
	lastShard  []int
	capped     bool
	progF      *os.File
	curIdx     int64
	curPrefix  []int
	curClass   string
	lastCkpt   time.Time
}

const maxVioPerClass = 5

func (w *Worker) addViolation(c *Ctx, class, msg string) {
	w.res.VioCounts[class]++
	if w.res.VioCounts[class] > maxVioPerClass {
		return
	}
	full := append([]int{}, c.choices...)
	w.res.Violations = append(w.res.Violations, Violation{
		Property: w.Property, Harness: w.Harness, Tier: w.Tier, Choices: full, Class: class, Message: msg,
		Log: append([]string{}, c.log...),
	})
}

func (w *Worker) progressClass(class string) {
	w.curClass = class
	w.progress(w.curIdx, w.curPrefix)
}

func (w *Worker) progress(idx int64, prefix []int) {
	if w.progF == nil {
		return
	}
	if idx != w.curIdx {
		w.curClass = ""
	}
	w.curIdx, w.curPrefix = idx, prefix
	b, _ := json.Marshal(struct {
		Index  int64  `json:"index"`
		Prefix []int  `json:"prefix"`
		Class  string `json:"class,omitempty"`
	}{idx, prefix, w.curClass})
	b = append(b, '\n')
	for len(b) < 512 {
		b = append(b, ' ')
	}
	w.progF.WriteAt(b, 0)
}

// SetSkip sets case indices to skip (cases that crashed the process before).
func (w *Worker) SetSkip(s []int64) {
	w.skip = map[int64]bool{}
	for _, k := range s {
		w.skip[k] = true
	}
}

// Run explores the whole choice tree of body (restricted to this worker's shard).
func (w *Worker) Run(body func(*Ctx)) *Result {
	if w.Of == 0 {
		w.Of = 1
	}
	if w.skip == nil {
		w.skip = map[int64]bool{}
	}
	w.res = NewResult()
	w.distinct = map[uint64]struct{}{}
	w.emit = map[[16]byte]emitRec{}
	w.caseIdx = -1
	if w.OutPath != "" {
		// resume from checkpoint
		if b, err := os.ReadFile(w.OutPath); err == nil {
			var r Result
			if json.Unmarshal(b, &r) == nil && r.Outcomes != nil {
				*w.res = r
				if w.res.Counters == nil {
					w.res.Counters = map[string]int64{}
				}
				if w.res.VioCounts == nil {
					w.res.VioCounts = map[string]int64{}
				}
				w.Start = r.NextIndex
				w.loadHashes()
			}
		}
		f, err := os.OpenFile(w.OutPath+".progress", os.O_CREATE|os.O_WRONLY|os.O_TRUNC, 0644)
		if err == nil {
			w.progF = f
			defer f.Close()
		}
	}
	w.lastCkpt = time.Now()
	var path []int
	complete := true
	n := 0
	for {
		c := &Ctx{w: w, Tier: w.Tier, prefix: path}
		w.exec(c, body)
		i := len(c.choices) - 1
		for i >= 0 && c.choices[i]+1 >= c.arity[i] {
			i--
		}
		if i < 0 {
			break
		}
		path = append(c.choices[:i:i], c.choices[i]+1)
		n++
		if n&63 == 0 && !w.Deadline.IsZero() {
			now := time.Now()
			if now.After(w.Deadline) {
				complete = false
				w.res.Capped = "deadline"
				break
			}
			if w.OutPath != "" && now.Sub(w.lastCkpt) > 3*time.Second {
				w.res.NextIndex = w.caseIdx // the current case may be mid-subtree: redo it
				w.save(false)
				w.lastCkpt = now
			}
		}
	}
	if w.capped {
		complete = false
		w.res.Capped = "limit"
	}
	w.res.NextIndex = w.caseIdx + 1
	w.res.Cases = w.ownedCases
	w.save(complete)
	return w.res
}

func (w *Worker) exec(c *Ctx, body func(*Ctx)) {
	defer func() {
		if r := recover(); r != nil {
			switch r.(type) {
			case notMine, abortCase:
				return
			}
			if s, ok := r.(string); ok && len(s) > 4 && s[:4] == "mc: " {
				panic(r)
			}
			w.res.Evaluations++
			w.addViolation(c, "panic", fmt.Sprintf("panic: %v", r))
		}
	}()
	body(c)
	if !c.sharded {
		c.Shard()
	}
	w.res.Evaluations++
}

func (w *Worker) save(done bool) {
	w.res.Done = done
	w.res.Distinct = int64(len(w.distinct))
	if w.OutPath == "" {
		return
	}
	hs := make([]uint64, 0, len(w.distinct))
	for h := range w.distinct {
		hs = append(hs, h)
	}
	sort.Slice(hs, func(i, j int) bool { return hs[i] < hs[j] })
	buf := make([]byte, 8*len(hs))
	for i, h := range hs {
		binary.LittleEndian.PutUint64(buf[8*i:], h)
	}
	os.WriteFile(w.OutPath+".hashes.tmp", buf, 0644)
	os.Rename(w.OutPath+".hashes.tmp", w.OutPath+".hashes")
	if len(w.emit) > 0 && done {
		var eb []byte
		for k, r := range w.emit {
			eb = append(eb, k[:]...)
			eb = binary.LittleEndian.AppendUint64(eb, r.val)
			eb = binary.AppendUvarint(eb, uint64(len(r.choices)))
			eb = append(eb, r.choices...)
		}
		os.WriteFile(w.OutPath+".emit", eb, 0644)
	}
	b, _ := json.Marshal(w.res)
	os.WriteFile(w.OutPath+".tmp", b, 0644)
	os.Rename(w.OutPath+".tmp", w.OutPath)
}

func (w *Worker) loadHashes() {
	for _, h := range ReadHashes(w.OutPath + ".hashes") {
		w.distinct[h] = struct{}{}
	}
}

// ReadHashes reads a distinct-hash file.
func ReadHashes(path string) []uint64 {
	b, err := os.ReadFile(path)
	if err != nil {
		return nil
	}
	out := make([]uint64, len(b)/8)
	for i := range out {
		out[i] = binary.LittleEndian.Uint64(b[8*i:])
	}
	return out
}

type emitRec struct {
	val     uint64
	choices []byte
}

func encodeChoices(c []int) []byte {
	var b []byte
	for _, x := range c {
		b = binary.AppendUvarint(b, uint64(x))
	}
	return b
}

func decodeChoices(b []byte) []int {
	var out []int
	for len(b) > 0 {
		v, n := binary.Uvarint(b)
		if n <= 0 {
			break
		}
		out = append(out, int(v))
		b = b[n:]
	}
	return out
}

// ReadEmit parses an emit file.
func ReadEmit(path string, f func(key [16]byte, val uint64, choices []byte)) {
	b, err := os.ReadFile(path)
	if err != nil {
		return
	}
	for len(b) >= 24 {
		var k [16]byte
		copy(k[:], b[:16])
		v := binary.LittleEndian.Uint64(b[16:24])
		b = b[24:]
		l, n := binary.Uvarint(b)
		if n <= 0 || int(l) > len(b)-n {
			return
		}
		f(k, v, b[n:n+int(l)])
		b = b[n+int(l):]
	}
}

// Replay executes body once on the given choice list and returns the violations it records.
func Replay(property, harness, tier string, devBound int, choices []int, body func(*Ctx)) (*Result, []string) {
	w := &Worker{Property: property, Harness: harness, Tier: tier, Of: 1, DevBound: devBound}
	w.res = NewResult()
	w.distinct = map[uint64]struct{}{}
	w.emit = map[[16]byte]emitRec{}
	w.skip = map[int64]bool{}
	c := &Ctx{w: w, Tier: tier, prefix: choices, replay: true}
	w.exec(c, body)
	return w.res, c.log
}

// ReplayPair runs first and then second in one worker, so that a cross-case (Emit) conflict
// shows up again.
func ReplayPair(property, harness, tier string, devBound int, first, second []int, body func(*Ctx)) (*Result, []string) {
	w := &Worker{Property: property, Harness: harness, Tier: tier, Of: 1, DevBound: devBound}
	w.res = NewResult()
	w.distinct = map[uint64]struct{}{}
	w.emit = map[[16]byte]emitRec{}
	w.skip = map[int64]bool{}
	c1 := &Ctx{w: w, Tier: tier, prefix: first, replay: true}
	w.exec(c1, body)
	c2 := &Ctx{w: w, Tier: tier, prefix: second, replay: true}
	w.exec(c2, body)
	return w.res, append(c1.log, c2.log...)
}
