package mc

import (
	"crypto/sha1"
	"encoding/json"
	"fmt"
	"os"
	"os/exec"
	"path/filepath"
	"sort"
	"strconv"
	"strings"
	"sync"
	"time"
)

// Harness is one exhaustively explored family of executions.
type Harness struct {
	Name string
	// Body is a choice-tree harness, sharded over worker processes.
	Body func(*Ctx)
	// InProc is an engine that runs inside the driver process (explicit-state BFS).
	InProc func(r *Run)
	// ReplayTrace re-executes one trace of an InProc harness (for replay files).
	ReplayTrace func(trace []int) (class, vio string)
	// Tiers in which the harness runs ("" = both).
	OnlyTier string
	DevBound map[string]int
	Budget   map[string]time.Duration
	Workers  int // 0 = all cores
	Procs    int // GOMAXPROCS of each worker (0 = 2)
	MemKB    int // ulimit -v for workers (0 = none)
	Limit    map[string]int64
	// Variant names the binary variant (overlay build) this harness must run in ("" = plain).
	Variant string
}

// Run is handed to an in-process engine.
type Run struct {
	Tier     string
	Deadline time.Time
	Res      *Result
	Property string
	Harness  string
	mu       sync.Mutex
	distinct map[uint64]struct{}
}

// Check is the set of harnesses deciding one property.
type Check struct {
	ID          string
	Level       string // exploration | model_checking | fault_enumeration
	Rule        string
	Assumptions []string
	Harnesses   []*Harness
}

func (h *Harness) devBound(tier string) int {
	if h.DevBound == nil {
		return 0
	}
	return h.DevBound[tier]
}

func (h *Harness) budget(tier string) time.Duration {
	if s := os.Getenv("VERIF_BUDGET_S"); s != "" {
		if k, err := strconv.Atoi(s); err == nil && k > 0 {
			return time.Duration(k) * time.Second
		}
	}
	if h.Budget != nil {
		if d, ok := h.Budget[tier]; ok {
			return d
		}
	}
	if tier == "thorough" {
		return 10 * time.Minute
	}
	return 60 * time.Second
}

// KnownFinding is one entry of known_findings.json.
type KnownFinding struct {
	Property    string `json:"property"`
	Status      string `json:"status"` // "known" or "fixed"
	Classifier  string `json:"classifier"`
	Commit      string `json:"commit,omitempty"`
	Description string `json:"description"`
}

type harnessSummary struct {
	Name        string           `json:"harness"`
	Evaluations int64            `json:"evaluations"`
	Cases       int64            `json:"cases"`
	Distinct    int64            `json:"distinct_nontrivial"`
	Exhaustive  bool             `json:"exhaustive"`
	Capped      string           `json:"capped,omitempty"`
	MaxDepth    int              `json:"max_choice_depth"`
	DevBound    int              `json:"deviation_bound"`
	Outcomes    map[string]int64 `json:"outcomes"`
	Counters    map[string]int64 `json:"counters,omitempty"`
	WallS       float64          `json:"wall_s"`
	Workers     int              `json:"workers"`
}

// Drive runs a check and writes its evidence. It returns the process exit code.
func Drive(chk *Check, tier string, root string, variant string) int {
	t0 := time.Now()
	seed, _ := strconv.Atoi(os.Getenv("VERIF_SEED"))
	work := filepath.Join(root, ".work", "run", chk.ID)
	os.RemoveAll(work)
	os.MkdirAll(work, 0755)
	defer os.RemoveAll(work)
	var sums []harnessSummary
	var allVio []Violation
	vioCounts := map[string]int64{}
	var samples []any
	total := NewResult()
	exhaustive := true
	infra := false
	var totalDistinct int64
	for _, h := range chk.Harnesses {
		if h.OnlyTier != "" && h.OnlyTier != tier {
			continue
		}
		hs := time.Now()
		var res *Result
		var nw int
		if h.InProc != nil && h.Variant != variant {
			out := filepath.Join(work, h.Name+".inproc.json")
			cmd := exec.Command(ExeFor(h.Variant), "inproc", chk.ID, h.Name, tier, out)
			cmd.Stderr = os.Stderr
			cmd.Env = append(os.Environ(), "TMPDIR="+work)
			if err := cmd.Run(); err != nil {
				fmt.Fprintf(os.Stderr, "harness %s (variant %s): %v\n", h.Name, h.Variant, err)
				infra = true
				continue
			}
			b, err := os.ReadFile(out)
			res = NewResult()
			if err != nil || json.Unmarshal(b, res) != nil {
				fmt.Fprintf(os.Stderr, "harness %s: no result\n", h.Name)
				infra = true
				continue
			}
			nw = 1
		} else if h.InProc != nil {
			r := &Run{Tier: tier, Deadline: time.Now().Add(h.budget(tier)), Res: NewResult(), Property: chk.ID, Harness: h.Name, distinct: map[uint64]struct{}{}}
			r.Res.Done = true
			func() {
				defer func() {
					if p := recover(); p != nil {
						fmt.Fprintf(os.Stderr, "in-process engine %s panicked: %v\n", h.Name, p)
						infra = true
					}
				}()
				h.InProc(r)
			}()
			r.Res.Distinct = int64(len(r.distinct))
			res = r.Res
			nw = 1
		} else {
			var err error
			res, nw, err = runWorkers(chk, h, tier, work)
			if err != nil {
				fmt.Fprintf(os.Stderr, "harness %s: %v\n", h.Name, err)
				infra = true
				continue
			}
		}
		sm := harnessSummary{Name: h.Name, Evaluations: res.Evaluations, Cases: res.Cases, Distinct: res.Distinct, Exhaustive: res.Done,
			Capped: res.Capped, MaxDepth: res.MaxDepth, DevBound: h.devBound(tier), Outcomes: res.Outcomes, Counters: res.Counters,
			WallS: time.Since(hs).Seconds(), Workers: nw}
		sums = append(sums, sm)
		fmt.Printf("[%s/%s] evaluations=%d distinct_nontrivial=%d exhaustive=%v outcomes=%d violations=%d wall=%.1fs %s\n",
			chk.ID, h.Name, res.Evaluations, res.Distinct, res.Done, len(res.Outcomes), len(res.Violations), sm.WallS, res.Capped)
		if !res.Done {
			exhaustive = false
		}
		total.Evaluations += res.Evaluations
		totalDistinct += res.Distinct
		for k, v := range res.Counters {
			total.Counters[k] += v
		}
		for k, v := range res.Outcomes {
			total.Outcomes[h.Name+":"+k] += v
		}
		for k, v := range res.VioCounts {
			vioCounts[k] += v
		}
		allVio = append(allVio, res.Violations...)
		for _, s := range res.Samples {
			if len(samples) < 6 {
				samples = append(samples, map[string]any{"harness": h.Name, "case": s})
			}
		}
	}

	// classify violations
	known := loadKnown(filepath.Join(root, "known_findings.json"))
	exit := 0
	nvio := 0
	printedKnown := map[string]bool{}
	sort.SliceStable(allVio, func(i, j int) bool { return len(allVio[i].Choices) < len(allVio[j].Choices) })
	reported := map[string]int{}
	seenPath := map[string]bool{}
	var matchedKnown []string
	for _, v := range allVio {
		isKnown := false
		for _, k := range known {
			if k.Status == "known" && k.Property == chk.ID && k.Classifier != "" && k.Classifier == v.Class {
				isKnown = true
				if !printedKnown[k.Classifier] {
					printedKnown[k.Classifier] = true
					matchedKnown = append(matchedKnown, k.Classifier)
					fmt.Printf("KNOWN-FINDING: property=%s %s: %s (e.g. %s)\n", chk.ID, k.Classifier, k.Description, oneLine(v.Message))
				}
			}
		}
		if isKnown {
			continue
		}
		if reported[v.Class] >= 3 {
			continue
		}
		path := writeReplay(root, v)
		if seenPath[path] {
			continue
		}
		seenPath[path] = true
		reported[v.Class]++
		// confirm determinism: replay 3x in fresh processes
		ok := 0
		if v.Crash {
			ok = 3
		} else {
			for i := 0; i < 3; i++ {
				cmd := exec.Command(ExeFor(variantOf(chk, v.Harness)), "replay", path)
				cmd.Env = append(os.Environ(), "VERIF_QUIET=1")
				if err := cmd.Run(); err != nil {
					if ee, isExit := err.(*exec.ExitError); isExit && ee.ExitCode() == 1 {
						ok++
					}
				}
			}
		}
		if ok == 3 {
			nvio++
			exit = 1
			fmt.Printf("VIOLATION property=%s replay=%s\n", chk.ID, path)
			fmt.Printf("  harness=%s class=%q %s\n", v.Harness, v.Class, oneLine(v.Message))
		} else {
			fmt.Printf("NONDETERMINISTIC-HARNESS property=%s replay=%s reproduced %d/3: %s\n", chk.ID, path, ok, oneLine(v.Message))
			infra = true
		}
	}

	// vacuity guard
	distinctOutcomes := len(total.Outcomes)
	if total.Evaluations > 0 && distinctOutcomes < 2 && !infra {
		fmt.Fprintf(os.Stderr, "vacuity guard: %d evaluations produced %d distinct outcomes\n", total.Evaluations, distinctOutcomes)
		infra = true
	}
	if len(samples) == 0 {
		samples = append(samples, "no sample recorded")
	}

	cov := map[string]any{
		"evaluations":         total.Evaluations,
		"distinct_nontrivial": totalDistinct,
		"rule":                chk.Rule,
		"samples":             samples,
		"exhaustive":          exhaustive,
		"harnesses":           sums,
		"distinct_outcomes":   distinctOutcomes,
		"violation_counts":    vioCounts,
		"known_findings":      matchedKnown,
	}
	if chk.Level == "model_checking" {
		st, tr := total.Counters["states"], total.Counters["transitions"]
		if st > 0 && tr > 0 {
			cov["states"] = st
			cov["transitions"] = tr
			cov["traces_validated_against_impl"] = total.Counters["traces"]
		}
	}
	ev := map[string]any{
		"property_id": chk.ID,
		"tier":        tier,
		"seed":        seed,
		"level":       chk.Level,
		"coverage":    cov,
		"assumptions": chk.Assumptions,
		"wall_s":      time.Since(t0).Seconds(),
		"violations":  nvio,
	}
	os.MkdirAll(filepath.Join(root, "evidence"), 0755)
	evPath := filepath.Join(root, "evidence", chk.ID+".json")
	b, _ := json.MarshalIndent(ev, "", " ")
	os.WriteFile(evPath, append(b, '\n'), 0644)
	if exit == 0 && infra {
		return 2
	}
	return exit
}

func variantOf(chk *Check, harness string) string {
	for _, h := range chk.Harnesses {
		if h.Name == harness {
			return h.Variant
		}
	}
	return ""
}

func oneLine(s string) string {
	s = strings.ReplaceAll(s, "\n", " | ")
	if len(s) > 400 {
		s = s[:400] + "…"
	}
	return s
}

func loadKnown(path string) []KnownFinding {
	b, err := os.ReadFile(path)
	if err != nil {
		return nil
	}
	var f struct {
		Findings []KnownFinding `json:"findings"`
	}
	if err := json.Unmarshal(b, &f); err != nil {
		fmt.Fprintf(os.Stderr, "known_findings.json: %v\n", err)
	}
	return f.Findings
}

func writeReplay(root string, v Violation) string {
	b, _ := json.MarshalIndent(v, "", " ")
	sum := sha1.Sum([]byte(fmt.Sprintf("%s|%s|%s|%v", v.Property, v.Harness, v.Tier, v.Choices)))
	dir := filepath.Join(root, "replays", v.Property)
	os.MkdirAll(dir, 0755)
	p := filepath.Join(dir, fmt.Sprintf("%x.json", sum[:6]))
	os.WriteFile(p, append(b, '\n'), 0644)
	return p
}

type wstate struct {
	shard    int
	cmd      *exec.Cmd
	out      string
	skip     []int64
	done     chan error
	lastProg time.Time
	lastIdx  int64
	tmp      string
}

// scratchBase prefers a memory-backed directory for the workers' private TMPDIR (spill files,
// scratch repositories); everything in it is created and removed by the run itself.
func scratchBase(work string) string {
	if st, err := os.Stat("/dev/shm"); err == nil && st.IsDir() {
		d := fmt.Sprintf("/dev/shm/verif-%d", os.Getpid())
		if os.MkdirAll(d, 0755) == nil {
			return d
		}
	}
	return work
}

func runWorkers(chk *Check, h *Harness, tier, work string) (*Result, int, error) {
	self := ExeFor(h.Variant)
	n := h.Workers
	if n <= 0 {
		n = 16
		if s := os.Getenv("VERIF_WORKERS"); s != "" {
			if k, err := strconv.Atoi(s); err == nil && k > 0 {
				n = k
			}
		}
	}
	deadline := time.Now().Add(h.budget(tier))
	var limit int64
	if h.Limit != nil {
		limit = h.Limit[tier]
	}
	var crashes []Violation
	start := func(ws *wstate) error {
		args := []string{"worker", chk.ID, h.Name, tier, strconv.Itoa(ws.shard), strconv.Itoa(n), ws.out,
			strconv.FormatInt(deadline.Unix(), 10), strconv.FormatInt(limit, 10)}
		sk := []string{}
		for _, k := range ws.skip {
			sk = append(sk, strconv.FormatInt(k, 10))
		}
		args = append(args, strings.Join(sk, ","))
		var cmd *exec.Cmd
		if h.MemKB > 0 {
			sh := fmt.Sprintf("ulimit -v %d; exec \"$0\" \"$@\"", h.MemKB)
			cmd = exec.Command("sh", append([]string{"-c", sh, self}, args...)...)
		} else {
			cmd = exec.Command(self, args...)
		}
		procs := h.Procs
		if procs == 0 {
			procs = 2
		}
		tmp := filepath.Join(scratchBase(work), fmt.Sprintf("%s-%s-tmp%d", chk.ID, h.Name, ws.shard))
		os.RemoveAll(tmp)
		os.MkdirAll(tmp, 0755)
		ws.tmp = tmp
		cmd.Env = append(os.Environ(), "GOMAXPROCS="+strconv.Itoa(procs), "TMPDIR="+tmp, "GORACE=halt_on_error=1 exitcode=66")
		lf, _ := os.Create(ws.out + ".log")
		cmd.Stdout = lf
		cmd.Stderr = lf
		if err := cmd.Start(); err != nil {
			return err
		}
		lf.Close()
		ws.cmd = cmd
		ws.done = make(chan error, 1)
		ws.lastProg = time.Now()
		go func() { ws.done <- cmd.Wait() }()
		return nil
	}
	states := make([]*wstate, n)
	for i := 0; i < n; i++ {
		states[i] = &wstate{shard: i, out: filepath.Join(work, fmt.Sprintf("%s.%d.json", h.Name, i)), lastIdx: -1}
		if err := start(states[i]); err != nil {
			return nil, n, err
		}
	}
	running := n
	finished := make([]bool, n)
	restarts := 0
	raceCrashes := 0 // a data race reported by the race detector ends the worker; a handful of reports is enough
	for running > 0 {
		time.Sleep(50 * time.Millisecond)
		for i, ws := range states {
			if finished[i] {
				continue
			}
			select {
			case err := <-ws.done:
				if err == nil {
					finished[i] = true
					running--
					continue
				}
				// crashed: read progress
				idx, prefix, pclass := readProgress(ws.out + ".progress")
				logb, _ := os.ReadFile(ws.out + ".log")
				msg := tail(string(logb), 3000)
				if i := strings.Index(string(logb), "WARNING: DATA RACE"); i >= 0 {
					// a race report is long: keep its head (the two conflicting accesses)
					msg = string(logb)[i:]
					if len(msg) > 3000 {
						msg = msg[:3000]
					}
				}
				if ee, ok := err.(*exec.ExitError); ok && ee.ExitCode() == 3 {
					return nil, n, fmt.Errorf("worker %d infrastructure error: %s", i, msg)
				}
				ccls := "crash"
				if pclass != "" {
					ccls = "crash:" + pclass + ":" + panicFingerprint(msg)
				}
				crashes = append(crashes, Violation{Property: chk.ID, Harness: h.Name, Tier: tier, Choices: prefix, Class: ccls,
					Message: "worker process died (" + err.Error() + "): " + firstLines(msg, 12), Crash: true})
				restarts++
				if strings.HasSuffix(ccls, ":data-race") {
					raceCrashes++
				}
				if restarts > 3000 || idx < 0 || raceCrashes > 8 {
					finished[i] = true
					running--
					crashes[len(crashes)-1].Message += " [worker not restarted]"
					continue
				}
				ws.skip = append(ws.skip, idx)
				if err := start(ws); err != nil {
					return nil, n, err
				}
			default:
				// hang detection on the progress file
				if st, err := os.Stat(ws.out + ".progress"); err == nil {
					if st.ModTime().After(ws.lastProg) {
						ws.lastProg = st.ModTime()
					}
				}
				if time.Since(ws.lastProg) > 300*time.Second && time.Now().Before(deadline.Add(-time.Second)) {
					ws.cmd.Process.Kill()
				} else if time.Now().After(deadline.Add(120 * time.Second)) {
					ws.cmd.Process.Kill()
				}
			}
		}
	}
	for _, ws := range states {
		if ws.tmp != "" {
			os.RemoveAll(ws.tmp)
		}
	}
	os.Remove(fmt.Sprintf("/dev/shm/verif-%d", os.Getpid()))
	// merge
	res := NewResult()
	res.Done = true
	set := map[uint64]struct{}{}
	emitAll := map[[16]byte]emitRec{}
	for _, ws := range states {
		b, err := os.ReadFile(ws.out)
		if err != nil {
			res.Done = false
			res.Capped = "worker-lost"
			continue
		}
		var r Result
		if err := json.Unmarshal(b, &r); err != nil {
			return nil, n, err
		}
		res.Evaluations += r.Evaluations
		res.Cases += r.Cases
		for k, v := range r.Outcomes {
			res.Outcomes[k] += v
		}
		for k, v := range r.Counters {
			res.Counters[k] += v
		}
		for k, v := range r.VioCounts {
			res.VioCounts[k] += v
		}
		res.Violations = append(res.Violations, r.Violations...)
		for _, s := range r.Samples {
			if len(res.Samples) < 3 {
				res.Samples = append(res.Samples, s)
			}
		}
		if r.MaxDepth > res.MaxDepth {
			res.MaxDepth = r.MaxDepth
		}
		if !r.Done {
			res.Done = false
			if r.Capped != "" {
				res.Capped = r.Capped
			}
		}
		for _, hh := range ReadHashes(ws.out + ".hashes") {
			set[hh] = struct{}{}
		}
		ReadEmit(ws.out+".emit", func(k [16]byte, v uint64, ch []byte) {
			if old, ok := emitAll[k]; ok {
				if old.val != v {
					res.VioCounts["injectivity"]++
					if res.VioCounts["injectivity"] <= maxVioPerClass {
						res.Violations = append(res.Violations, Violation{Property: chk.ID, Harness: h.Name, Tier: tier,
							Choices: decodeChoices(ch), Choices2: decodeChoices(old.choices), Class: "injectivity",
							Message: fmt.Sprintf("two different cases (explored by different workers) map to the same identifier %x", k)})
					}
				}
				return
			}
			emitAll[k] = emitRec{val: v, choices: append([]byte{}, ch...)}
		})
	}
	res.Distinct = int64(len(set))
	if len(crashes) > 0 {
		// every crashed case was skipped individually and its worker restarted: the rest of the
		// space was still explored; Capped records that crashes happened
		if res.Capped == "" {
			res.Capped = fmt.Sprintf("%d cases crashed their worker", len(crashes))
		}
		for _, cv := range crashes {
			res.VioCounts[cv.Class]++
		}
		res.Violations = append(res.Violations, crashes...)
	}
	return res, n, nil
}

func readProgress(path string) (int64, []int, string) {
	b, err := os.ReadFile(path)
	if err != nil {
		return -1, nil, ""
	}
	var p struct {
		Index  int64  `json:"index"`
		Prefix []int  `json:"prefix"`
		Class  string `json:"class"`
	}
	line := strings.SplitN(string(b), "\n", 2)[0]
	if json.Unmarshal([]byte(line), &p) != nil {
		return -1, nil, ""
	}
	return p.Index, p.Prefix, p.Class
}

// panicFingerprint reduces the first "panic:" / "fatal error:" line of a crash log to letters
// only, so that it names the kind of crash but not addresses or numbers.
func panicFingerprint(log string) string {
	if strings.Contains(log, "WARNING: DATA RACE") {
		return "data-race"
	}
	for _, l := range strings.Split(log, "\n") {
		if strings.HasPrefix(l, "panic:") || strings.HasPrefix(l, "fatal error:") {
			var sb strings.Builder
			for _, r := range l {
				if (r >= 'a' && r <= 'z') || (r >= 'A' && r <= 'Z') {
					sb.WriteRune(r)
				} else if sb.Len() > 0 && !strings.HasSuffix(sb.String(), "-") {
					sb.WriteByte('-')
				}
			}
			f := strings.Trim(sb.String(), "-")
			if len(f) > 60 {
				f = f[:60]
			}
			return f
		}
	}
	return "unknown"
}

func tail(s string, n int) string {
	if len(s) > n {
		return s[len(s)-n:]
	}
	return s
}

func firstLines(s string, n int) string {
	lines := strings.Split(s, "\n")
	// prefer the region starting at the first "panic:" or "fatal error:"
	for i, l := range lines {
		if strings.HasPrefix(l, "panic:") || strings.HasPrefix(l, "fatal error:") || strings.HasPrefix(l, "WARNING: DATA RACE") {
			lines = lines[i:]
			break
		}
	}
	if len(lines) > n {
		lines = lines[:n]
	}
	return strings.Join(lines, " | ")
}

// ExeFor returns the vcheck binary built with the given overlay variant.
func ExeFor(variant string) string {
	self, _ := os.Executable()
	dir := filepath.Dir(self)
	if variant == "" || variant == "plain" {
		return filepath.Join(dir, "vcheck")
	}
	return filepath.Join(dir, "vcheck-"+variant)
}

// RunInProc runs an in-process harness and writes its result (used for variant binaries).
func RunInProc(chk *Check, h *Harness, tier, out string) {
	r := &Run{Tier: tier, Deadline: time.Now().Add(h.budget(tier)), Res: NewResult(), Property: chk.ID, Harness: h.Name, distinct: map[uint64]struct{}{}}
	r.Res.Done = true
	h.InProc(r)
	r.Res.Distinct = int64(len(r.distinct))
	b, _ := json.Marshal(r.Res)
	os.WriteFile(out, b, 0644)
}

// ---- in-process run helpers ----

func (r *Run) Lock()   { r.mu.Lock() }
func (r *Run) Unlock() { r.mu.Unlock() }

// Fail records a violation found by an in-process engine; trace is the op sequence.
func (r *Run) Fail(class, msg string, trace []int, log []string) {
	r.mu.Lock()
	defer r.mu.Unlock()
	r.Res.VioCounts[class]++
	if r.Res.VioCounts[class] > maxVioPerClass {
		return
	}
	r.Res.Violations = append(r.Res.Violations, Violation{Property: r.Property, Harness: r.Harness, Tier: r.Tier,
		Choices: append([]int{}, trace...), Class: class, Message: msg, Log: log})
}

func (r *Run) Nontrivial(key string) {
	r.mu.Lock()
	r.distinct[fnv64(key)] = struct{}{}
	r.mu.Unlock()
}

func (r *Run) Outcome(o string) {
	r.mu.Lock()
	r.Res.Outcomes[o]++
	r.mu.Unlock()
}

func (r *Run) Count(name string, n int64) {
	r.mu.Lock()
	r.Res.Counters[name] += n
	r.mu.Unlock()
}

func (r *Run) Sample(v any) {
	r.mu.Lock()
	if len(r.Res.Samples) < 3 {
		r.Res.Samples = append(r.Res.Samples, v)
	}
	r.mu.Unlock()
}

func fnv64(s string) uint64 {
	const off, prime = 14695981039346656037, 1099511628211
	h := uint64(off)
	for i := 0; i < len(s); i++ {
		h ^= uint64(s[i])
		h *= prime
	}
	return h
}
