package mc

import (
	"fmt"
	"runtime/debug"
	"sync"
	"time"
)

// BFSSpec describes an explicit-state search over operation sequences executed on the real
// implementation. A state is identified with the shortest operation sequence that reaches
// it; a successor is computed by replaying that sequence on a fresh instance plus one more
// operation. States are deduplicated by the canonical key Exec returns.
type BFSSpec struct {
	NumOps   int
	MaxDepth int
	Parallel int
	// Exec replays trace on a fresh instance next to the reference model, comparing every
	// step. It returns the canonical key of the reached state (implementation-observable
	// state plus model state), or a non-empty violation message with its class.
	Exec func(trace []int) (key string, class string, vio string)
	// OpName renders an op for samples.
	OpName func(op int) string
	// Enabled optionally prunes ops (nil = all enabled).
	Enabled func(trace []int, op int) bool
}

// BFS runs the search and fills r.Res (counters states / transitions / traces / max_depth).
func BFS(r *Run, spec *BFSSpec) {
	par := spec.Parallel
	if par <= 0 {
		par = 16
	}
	seen := map[string]struct{}{}
	rootKey, class, vio := safeExec(spec, nil)
	if vio != "" {
		r.Fail(class, vio, nil, nil)
		return
	}
	seen[rootKey] = struct{}{}
	frontier := [][]int{{}}
	var transitions int64
	depthDone := 0
	type out struct {
		trace []int
		key   string
		class string
		vio   string
	}
	for depth := 1; depth <= spec.MaxDepth && len(frontier) > 0; depth++ {
		if time.Now().After(r.Deadline) {
			r.Res.Done = false
			r.Res.Capped = fmt.Sprintf("deadline before depth %d", depth)
			break
		}
		jobs := make(chan []int, 1024)
		outs := make(chan out, 1024)
		var wg sync.WaitGroup
		aborted := false
		var abortMu sync.Mutex
		for w := 0; w < par; w++ {
			wg.Add(1)
			go func() {
				defer wg.Done()
				for base := range jobs {
					for op := 0; op < spec.NumOps; op++ {
						if spec.Enabled != nil && !spec.Enabled(base, op) {
							continue
						}
						abortMu.Lock()
						ab := aborted
						abortMu.Unlock()
						if ab {
							break
						}
						tr := append(append(make([]int, 0, len(base)+1), base...), op)
						k, c, v := safeExec(spec, tr)
						outs <- out{tr, k, c, v}
					}
				}
			}()
		}
		go func() {
			for i, f := range frontier {
				if i&255 == 0 && time.Now().After(r.Deadline) {
					abortMu.Lock()
					aborted = true
					abortMu.Unlock()
					break
				}
				jobs <- f
			}
			close(jobs)
			wg.Wait()
			close(outs)
		}()
		var next [][]int
		for o := range outs {
			transitions++
			if o.vio != "" {
				log := []string{}
				for _, op := range o.trace {
					if spec.OpName != nil {
						log = append(log, spec.OpName(op))
					}
				}
				r.Fail(o.class, o.vio, o.trace, log)
				r.Outcome("violation:" + o.class)
				continue
			}
			if _, ok := seen[o.key]; !ok {
				seen[o.key] = struct{}{}
				next = append(next, o.trace)
				r.Outcome(fmt.Sprintf("new-state@depth%d", depth))
				if len(r.Res.Samples) < 3 && depth >= 3 && spec.OpName != nil {
					names := []string{}
					for _, op := range o.trace {
						names = append(names, spec.OpName(op))
					}
					r.Sample(map[string]any{"ops": names})
				}
			} else {
				r.Outcome("revisit")
			}
		}
		if aborted {
			r.Res.Done = false
			r.Res.Capped = fmt.Sprintf("deadline inside depth %d", depth)
			break
		}
		depthDone = depth
		frontier = next
	}
	r.mu.Lock()
	r.Res.Evaluations += transitions
	r.Res.Counters["states"] += int64(len(seen))
	r.Res.Counters["transitions"] += transitions
	r.Res.Counters["traces"] += transitions
	if depthDone > r.Res.MaxDepth {
		r.Res.MaxDepth = depthDone
	}
	r.Res.Counters["depth_completed"] = int64(depthDone)
	for k := range seen {
		r.distinct[fnv64(k)] = struct{}{}
	}
	r.mu.Unlock()
}

func safeExec(spec *BFSSpec, tr []int) (key, class, vio string) {
	defer func() {
		if p := recover(); p != nil {
			class = "panic"
			vio = fmt.Sprintf("panic: %v\n%s", p, debug.Stack())
		}
	}()
	return spec.Exec(tr)
}
